//! C11: custom templates (cust_with_values) and inject_parameters.
use crate::reflex::B;
use crate::sq::*;
use crate::*;
use sea_query::*;

fn alphabetic_of(s: &str) -> String { let mut v: Vec<char> = s.chars().filter(|c| c.is_alphabetic()).collect(); v.sort(); v.dedup(); v.into_iter().collect() }

/// template pieces: mostly-valid structured fragments
fn gen_template(r: &mut SplitMix64, b: B) -> String {
    let mark = if b == B::Postgres { '$' } else { '?' };
    let mut s = String::new();
    let n = 1 + r.below(9);
    for _ in 0..n {
        match r.below(16) {
            0 | 1 => s.push_str(r.pick::<&str>(&["a", "col", "x1", "SELECT", "é", "_u", "a$b"])),
            2 => s.push_str(r.pick::<&str>(&[" = ", " + ", "||", "->", ",", "(", ")", " ", "  ", "\t", "-", "- ", "+", "<", "*", "/"])),
            3 => { let q = *r.pick(&['\'', '"', '`']); s.push(q); for _ in 0..r.below(5) { match r.below(6) { 0 => { s.push(q); s.push(q); } 1 => { s.push('\\'); s.push(q); } 2 => s.push(mark), 3 => { s.push(mark); s.push('1'); } _ => s.push(*r.pick(&['a', ' ', '?', '$', '1'])) } } s.push(q); }
            4 => { s.push('['); for _ in 0..r.below(3) { s.push(*r.pick(&['a', '?', '$', '1', ' '])); } s.push(']'); }
            5 | 6 | 7 => { s.push(mark); if b == B::Postgres { match r.below(5) { 0 => {} 1 => s.push('0'), 2 => s.push_str("9"), 3 => s.push_str(r.pick::<&str>(&["x", "word", "1a"])), _ => s.push_str(&format!("{}", 1 + r.below(4))) } } }
            8 => { s.push(mark); s.push(mark); }
            9 => { s.push(' '); s.push(mark); s.push(' '); }
            10 => { s.push(mark); s.push(mark); s.push(mark); }
            11 => s.push_str(r.pick::<&str>(&["'", "\\", "\"unterminated ?"])),
            _ => { s.push(' '); }
        }
    }
    s
}

/// independent specification: quote-aware scan of the template (no use of the crate's tokenizer)
/// returns Ok(expected inline text) or Err(class) where the property's reading is unclear / a known defect applies
fn spec(b: B, t: &str, lits: &[String]) -> Result<Option<String>, &'static str> {
    let cs: Vec<char> = t.chars().collect();
    let mark = if b == B::Postgres { '$' } else { '?' };
    let mut out = String::new();
    let mut i = 0; let mut count = 0usize;
    let word = |c: char| c.is_alphabetic() || c.is_ascii_digit();
    while i < cs.len() {
        let c = cs[i];
        // an unquoted word swallows `_` / `$` after its first character (tokenizer rule for identifiers)
        if word(c) { while i < cs.len() && (word(cs[i]) || cs[i] == '_' || cs[i] == '$') { out.push(cs[i]); i += 1; } continue; }
        if c == '\'' || c == '"' || c == '`' || c == '[' {
            let close = if c == '[' { ']' } else { c };
            out.push(c); i += 1;
            let mut esc = false;
            loop {
                if i >= cs.len() { break; }
                let d = cs[i];
                if !esc && d == close {
                    out.push(d); i += 1;
                    if c != '[' && i < cs.len() && cs[i] == close { out.push(close); i += 1; continue; }
                    break;
                }
                esc = !esc && d == '\\';
                out.push(d); i += 1;
            }
            continue;
        }
        if c == mark {
            if i + 1 < cs.len() && cs[i + 1] == mark { out.push(mark); i += 2; continue; }
            if b == B::Postgres && i + 1 < cs.len() && word(cs[i + 1]) {
                let mut j = i + 1; let mut w = String::new();
                while j < cs.len() && (word(cs[j]) || cs[j] == '_' || cs[j] == '$') { w.push(cs[j]); j += 1; }
                match w.parse::<usize>() {
                    Ok(0) => return Err("C11.pg_dollar_zero"),
                    Ok(n) => { if n > lits.len() { return Ok(None); } out.push_str(&lits[n - 1]); i = j; continue; }
                    Err(_) => return Err("C11.pg_dollar_word"),
                }
            }
            if count >= lits.len() { return Ok(None); }
            out.push_str(&lits[count]); count += 1; i += 1; continue;
        }
        out.push(c); i += 1;
    }
    Ok(Some(out))
}

fn check_template(ctx: &mut Ctx, b: B, t: &str, nvals: usize) {
    // every third value is negative (its literal starts with `-`: nothing may be inserted between the template's text and it)
    let vals: Vec<i32> = (0..nvals as i32).map(|i| if (i as usize + t.chars().count()) % 3 == 0 { -(101 + i) } else { 101 + i }).collect();
    let lits: Vec<String> = vals.iter().map(|v| v.to_string()).collect();
    let q = Query::select().expr(Expr::cust_with_values(t, vals.clone())).to_owned();
    let inline = to_string_q(b, &q).map(|s| s.strip_prefix("SELECT ").unwrap_or(&s).to_string());
    let built = build_q(b, &q).map(|(s, v)| (s.strip_prefix("SELECT ").unwrap_or(&s).to_string(), v));
    let expect = match (&inline, &built) {
        (Some(i), Some((p, v))) => {
            let order: Vec<String> = v.0.iter().map(|x| match x { Value::Int(Some(n)) => (n.abs() - 101).to_string(), _ => "?".into() }).collect();
            format!("ok {} {} [{}]", hs(i), hs(p), order.join(","))
        }
        _ => "panic".to_string(),
    };
    let line = format!("tmpl {} {} {}{}", b.name(), hs(t), hs(&alphabetic_of(t)), lits.iter().map(|l| format!(" {}", hs(l))).collect::<String>());
    let (tc, bn) = (t.to_string(), b.name());
    ctx.case(line, expect, !t.is_empty(), &|| format!("cust_with_values({:?}, {} values) on {}", tc, nvals, bn));
    ctx.count(&format!("templates.{bn}"));
    // oracle
    match spec(b, t, &lits) {
        Err(cls) => {
            // known defect classes: record them when they manifest (output differs from "mark kept / value substituted")
            ctx.count(&format!("oracle.known.{cls}"));
            ctx.oracle_fail("a `$` followed by a word that is not a positive number: the word is swallowed / the index underflows", serde_json::json!({"class": cls, "backend": bn, "template": t, "inline": inline}));
        }
        Ok(None) => { if inline.is_some() { ctx.count("oracle.unclassified"); ctx.oracle_fail("a template designating a value that was not supplied did not fail", serde_json::json!({"backend": bn, "template": t, "values": nvals, "inline": inline})); } }
        Ok(Some(want)) => {
            if inline.as_deref() != Some(want.as_str()) {
                ctx.count("oracle.unclassified");
                ctx.oracle_fail("template expansion differs from the specification (placeholders replaced, everything else unchanged)", serde_json::json!({"backend": bn, "template": t, "values": lits, "expected": want, "got": inline}));
            }
            // inject_parameters on the parameterised form gives the inline form
            if let Some((p, v)) = &built { check_inject(ctx, b, p, &v.0, inline.as_deref()); }
        }
    }
}

fn check_inject(ctx: &mut Ctx, b: B, sql: &str, values: &[Value], inline: Option<&str>) {
    let lits: Vec<String> = values.iter().map(|v| value_to_string(b, v).unwrap_or_default()).collect();
    let (s2, v2) = (sql.to_string(), values.to_vec());
    let got = catch(move || inject_parameters(&s2, v2, qb(b).as_ref()));
    let line = format!("inj {} {} {}{}", b.name(), hs(sql), hs(&alphabetic_of(sql)), lits.iter().map(|l| format!(" {}", hs(l))).collect::<String>());
    let (sc, bn) = (sql.to_string(), b.name());
    ctx.case(line, match &got { Some(s) => format!("ok {}", hs(s)), None => "panic".into() }, true, &|| format!("inject_parameters({:?}) on {}", sc, bn));
    ctx.count(&format!("inject.{bn}"));
    if let Some(want) = inline {
        if got.as_deref() != Some(want) {
            // SQLite literals do not honour backslash escapes but the tokenizer does
            let cls = if b == B::Sqlite && (sql.contains("\\'") || sql.contains("\\\"") || sql.contains("\\`")) { Some("C11.sqlite_backslash_before_quote") }
                // a literal placeholder mark in the statement text (from a doubled mark) cannot be told from a placeholder
                else if sql_has_literal_mark(b, sql, values.len()) { Some("C11.literal_mark_in_built_sql") }
                else if b == B::Postgres && glued_placeholder(sql) { Some("C11.pg_placeholder_glued_to_word") } else { None };
            let mut v = serde_json::json!({"backend": bn, "sql": sql, "values": lits, "expected": want, "got": got});
            if let Some(c) = cls { v["class"] = serde_json::json!(c); ctx.count(&format!("oracle.known.{c}")); } else { ctx.count("oracle.unclassified"); }
            ctx.oracle_fail("inject_parameters(build()) differs from to_string()", v);
        }
    }
}

/// (index, char) of the characters outside quoted text, by the tokenizer's notion of quoting
/// (delimiters ' " ` [ ]; doubled delimiter and backslash escape inside)
fn outside_quotes(t: &str) -> Vec<(usize, char)> {
    let cs: Vec<char> = t.chars().collect();
    let mut out = Vec::new();
    let mut i = 0;
    let word = |c: char| c.is_alphabetic() || c.is_ascii_digit();
    while i < cs.len() {
        let c = cs[i];
        if word(c) { while i < cs.len() && (word(cs[i]) || cs[i] == '_' || cs[i] == '$') { out.push((i, cs[i])); i += 1; } continue; }
        if c == '\'' || c == '"' || c == '`' || c == '[' {
            let close = if c == '[' { ']' } else { c };
            i += 1;
            let mut esc = false;
            loop {
                if i >= cs.len() { break; }
                let d = cs[i];
                if !esc && d == close { i += 1; if c != '[' && i < cs.len() && cs[i] == close { i += 1; continue; } break; }
                esc = !esc && d == '\\';
                i += 1;
            }
            continue;
        }
        out.push((i, c)); i += 1;
    }
    out
}

/// a numbered placeholder immediately followed by an identifier character (`$1_u`): the template put a
/// word right after a mark, and the re-tokenised number is no longer a number
fn glued_placeholder(sql: &str) -> bool {
    let cs: Vec<char> = sql.chars().collect();
    let mut i = 0;
    while i < cs.len() {
        if cs[i] == '$' && i + 1 < cs.len() && cs[i + 1].is_ascii_digit() {
            let mut j = i + 1;
            while j < cs.len() && cs[j].is_ascii_digit() { j += 1; }
            if j < cs.len() && (cs[j].is_alphabetic() || cs[j] == '_' || cs[j] == '$') { return true; }
            i = j;
        } else { i += 1; }
    }
    false
}

/// more bare marks in the built SQL (outside quotes) than bound values: some are literal marks
fn sql_has_literal_mark(b: B, sql: &str, nvals: usize) -> bool {
    if b == B::Postgres {
        // only a literal `$` that is directly followed by a digit can be mistaken for a placeholder
        let out = outside_quotes(sql);
        let mut n = 0;
        for w in out.windows(2) { if w[0].1 == '$' && w[1].1.is_ascii_digit() && w[1].0 == w[0].0 + 1 { n += 1; } }
        return n != nvals;
    }
    match crate::reflex::lex(b, sql) { Ok(t) => crate::reflex::params(&t).len() != nvals, Err(_) => true }
}

/// templates over EXPRESSIONS (`cust_with_exprs`): a placeholder designates an expression, which must be rendered exactly as the
/// backend renders it on its own (enum casts, functions, sub-queries, parentheses), and bind exactly its values, in order of appearance
fn check_exprs(ctx: &mut Ctx, b: B, r: &mut SplitMix64) {
    let a = |s: &str| Alias::new(s);
    let pool: Vec<(&str, SimpleExpr)> = vec![
        ("col", Expr::col(a("c")).into()), ("int", Expr::val(7).into()), ("str", Expr::val("it's ?").into()),
        ("bin", Expr::col(a("c")).add(1)), ("fn", Func::max(Expr::col(a("m"))).into()), ("null", SimpleExpr::Keyword(Keyword::Null)),
        ("enum", Expr::val("bold").as_enum(a("font_variant"))), ("enum_array", SimpleExpr::AsEnum(a("font_variant[]").into_iden(), Box::new(Expr::val("x").into()))),
        ("enum_in_bin", Expr::col(a("v")).eq(Expr::val("thin").as_enum(a("weight")))), ("tuple", Expr::tuple([Expr::val(1).into(), Expr::val(2).into()]).into()),
        ("subq", SimpleExpr::SubQuery(None, Box::new(Query::select().column(a("z")).from(a("u")).and_where(Expr::col(a("z")).eq(3)).to_owned().into_sub_query_statement()))),
        ("cust", Expr::cust("now()")), ("case", CaseStatement::new().case(Expr::col(a("k")).eq(1), 10).finally(20).into()), ("not", Expr::col(a("n")).eq(1).not()),
    ];
    // (template with {i} holes in order of appearance) ; on Postgres the holes are numbered, so they may also be permuted
    let shapes: [(&str, &[usize]); 6] = [("{} + {}", &[0, 1]), ("f({}, {})", &[0, 1]), ("{} = ANY({})", &[0, 1]), ("({})", &[0]), ("{} BETWEEN {} AND {}", &[0, 1, 2]), ("{} - {}", &[1, 0])];
    let (shape, order) = *r.pick(&shapes);
    let k = order.len();
    let picks: Vec<usize> = (0..k).map(|_| r.below(pool.len() as u64) as usize).collect();
    let exprs: Vec<SimpleExpr> = picks.iter().map(|i| pool[*i].1.clone()).collect();
    // the template text: holes filled with the backend's placeholder syntax
    let numbered = b == B::Postgres;
    let appear: Vec<usize> = if numbered { order.to_vec() } else { (0..k).collect() };
    let mut t = String::new(); let mut hole = 0;
    for part in shape.split("{}") { t.push_str(part); if hole < k { if numbered { t.push_str(&format!("${}", appear[hole] + 1)); } else { t.push('?'); } hole += 1; } }
    let q = Query::select().expr(Expr::cust_with_exprs(t.as_str(), exprs.clone())).to_owned();
    let alone = |e: &SimpleExpr| -> Option<(String, Vec<Value>)> {
        let q = Query::select().expr(e.clone()).to_owned();
        let i = to_string_q(b, &q)?; let (_, v) = build_q(b, &q)?;
        Some((i.strip_prefix("SELECT ").unwrap_or(&i).to_string(), v.0))
    };
    let singles: Vec<Option<(String, Vec<Value>)>> = exprs.iter().map(alone).collect();
    let names: Vec<&str> = picks.iter().map(|i| pool[*i].0).collect();
    ctx.eval_only(&format!("exprs {} {} {:?}", b.name(), t, names), true);
    ctx.count(&format!("templates.exprs.{}", b.name()));
    if singles.iter().any(|s| s.is_none()) { return; }
    let singles: Vec<(String, Vec<Value>)> = singles.into_iter().map(|s| s.unwrap()).collect();
    let mut want = String::new(); let mut want_vals: Vec<Value> = Vec::new(); let mut hole = 0;
    for part in shape.split("{}") { want.push_str(part); if hole < k { let (txt, vs) = &singles[appear[hole]]; want.push_str(txt); want_vals.extend(vs.iter().cloned()); hole += 1; } }
    let inline = to_string_q(b, &q).map(|s| s.strip_prefix("SELECT ").unwrap_or(&s).to_string());
    let built = build_q(b, &q);
    let info = || serde_json::json!({"backend": b.name(), "template": t, "expressions": names, "expected": want, "got": inline});
    if inline.as_deref() != Some(want.as_str()) { ctx.count("oracle.unclassified"); ctx.oracle_fail("a template over expressions does not render each designated expression as the backend renders it on its own", info()); }
    match built {
        None => { ctx.count("oracle.unclassified"); ctx.oracle_fail("a template over expressions cannot be built", info()); }
        Some((_, v)) => if v.0 != want_vals { ctx.count("oracle.unclassified"); ctx.oracle_fail("a template over expressions does not bind the values of the designated expressions in order of appearance", { let mut j = info(); j["values"] = serde_json::json!(format!("{:?}", v.0)); j["expected_values"] = serde_json::json!(format!("{:?}", want_vals)); j }); }
    }
}

pub fn run(ctx: &mut Ctx) {
    let thorough = ctx.tier_thorough;
    let n = if thorough { 300000 } else { 40000 };
    ctx.rule = format!("{} templates assembled from words, operators, whitespace, quoted literals / identifiers (with embedded marks, doubled and backslash-escaped quotes, brackets), positional and numbered placeholders ($0, $n, $word, bare $), doubled and tripled marks, lone quotes and backslashes x value lists of 0..4 x 3 backends: crate (to_string and build) vs model (inline text, parameterised text, value order); independent quote-aware specification as oracle; inject_parameters on every (sql, values) pair from build() vs to_string and vs the model; templates over expressions (cust_with_exprs: enum casts, functions, sub-queries, CASE, tuples as designated values; numbered holes permuted on Postgres): text = template with each hole replaced by the expression's own rendering, values = the expressions' values in order of appearance; plus inject_parameters on statements with string constants containing marks, quotes and backslashes. Non-trivial = non-empty template; distinct by request.", n);
    let corpus = ["", "?", "??", "???", "$1", "$$", "$", "a = ? AND b = '?'", "x $2 y $1", "'a''?' ?", "\"a\\\"?\" $1", "[?] ?", "$0", "$x", "$1a", "? ?", "'unterminated ?", "a$b ?", "é?", "m[idx[1]] = ?"];
    for b in B::all() { for t in corpus { for nv in 0..3 { check_template(ctx, b, t, nv); } } }
    for _ in 0..n {
        let mut r = ctx.rng.fork();
        let b = *r.pick(&B::all());
        let t = gen_template(&mut r, b);
        let nv = r.below(5) as usize;
        check_template(ctx, b, &t, nv);
    }
    for _ in 0..n / 10 { let mut r = ctx.rng.fork(); let b = *r.pick(&B::all()); check_exprs(ctx, b, &mut r); }
    // inject_parameters on ordinary statements with nasty constants
    for _ in 0..n / 8 {
        let mut r = ctx.rng.fork();
        let b = *r.pick(&B::all());
        let s1: String = (0..r.below(5)).map(|_| *r.pick(&['a', '?', '$', '\'', '"', '\\', ' ', '1'])).collect();
        let q = Query::select().expr(SimpleExpr::Constant(Value::from(s1.as_str()))).column(Alias::new("c")).from(Alias::new("t"))
            .and_where(Expr::col(Alias::new("x")).eq(r.below(100) as i32)).and_where(Expr::col(Alias::new("y")).eq(s1.as_str())).limit(r.below(9)).to_owned();
        if let (Some(i), Some((p, v))) = (to_string_q(b, &q), build_q(b, &q)) { check_inject(ctx, b, &p, &v.0, Some(&i)); }
    }
}
