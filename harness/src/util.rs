//! PRNG, hex, helpers.
use std::fmt::Write;

#[derive(Clone)]
pub struct SplitMix64(pub u64);
impl SplitMix64 {
    pub fn new(seed: u64) -> Self { SplitMix64(seed.wrapping_mul(0x9E3779B97F4A7C15) ^ 0xD1B54A32D192ED03) }
    pub fn next(&mut self) -> u64 {
        self.0 = self.0.wrapping_add(0x9E3779B97F4A7C15);
        let mut z = self.0;
        z = (z ^ (z >> 30)).wrapping_mul(0xBF58476D1CE4E5B9);
        z = (z ^ (z >> 27)).wrapping_mul(0x94D049BB133111EB);
        z ^ (z >> 31)
    }
    pub fn below(&mut self, n: u64) -> u64 { if n == 0 { 0 } else { self.next() % n } }
    pub fn chance(&mut self, num: u64, den: u64) -> bool { self.below(den) < num }
    pub fn pick<'a, T>(&mut self, xs: &'a [T]) -> &'a T { &xs[self.below(xs.len() as u64) as usize] }
    pub fn fork(&mut self) -> SplitMix64 { SplitMix64(self.next()) }
}

pub fn fnv(s: &str) -> u64 {
    let mut h: u64 = 0xcbf29ce484222325;
    for b in s.as_bytes() { h ^= *b as u64; h = h.wrapping_mul(0x100000001b3); }
    h
}

pub fn hex(bytes: &[u8]) -> String {
    let mut s = String::with_capacity(bytes.len() * 2);
    for b in bytes { write!(s, "{:02x}", b).unwrap(); }
    s
}
/// `h:<hex of UTF-8>`
pub fn hs(s: &str) -> String { format!("h:{}", hex(s.as_bytes())) }
pub fn hb(b: &[u8]) -> String { format!("b:{}", hex(b)) }

pub fn unhex(s: &str) -> Option<Vec<u8>> {
    let b = s.as_bytes();
    if b.len() % 2 != 0 { return None; }
    let mut out = Vec::with_capacity(b.len() / 2);
    for i in (0..b.len()).step_by(2) {
        let h = (b[i] as char).to_digit(16)?;
        let l = (b[i + 1] as char).to_digit(16)?;
        out.push((h * 16 + l) as u8);
    }
    Some(out)
}

/// all strings over `alpha` of length exactly `len`, visiting each with `f`
pub fn for_each_string(alpha: &[char], len: usize, f: &mut dyn FnMut(&str)) {
    let mut idx = vec![0usize; len];
    let mut s = String::new();
    loop {
        s.clear();
        for &i in &idx { s.push(alpha[i]); }
        f(&s);
        let mut k = len;
        loop {
            if k == 0 { return; }
            k -= 1;
            idx[k] += 1;
            if idx[k] < alpha.len() { break; }
            idx[k] = 0;
        }
    }
}

/// a random Unicode scalar value, biased towards interesting ranges
pub fn random_char(r: &mut SplitMix64) -> char {
    loop {
        let c = match r.below(11) {
            // code points that text-handling code likes to treat specially: byte-order mark, no-break / ideographic / other Unicode
            // spaces, line and paragraph separators, zero-width characters, letters with odd case mappings, a combining mark,
            // look-alikes of the quote and the backslash, the replacement character, the edges of the surrogate gap, the last code point
            10 => *r.pick(&[0xFEFFu32, 0xA0, 0x85, 0x2028, 0x2029, 0x200B, 0x200D, 0x3000, 0x1680, 0x2003, 0x130, 0xDF, 0x301, 0xFFFD, 0xFFFE, 0xD7FF, 0xE000, 0x10FFFF,
                0xFF07, 0x2019, 0x2BC, 0xFF3C, 0xAD, 0x7F, 0x0B, 0x0C]),
            0..=3 => 0x20 + r.below(0x5f) as u32,
            4 => r.below(0x20) as u32,
            5 => 0x80 + r.below(0x780) as u32,
            6 => 0x800 + r.below(0xF800) as u32,
            7 => 0x10000 + r.below(0x100000) as u32,
            _ => *r.pick(&[0x27u32, 0x22, 0x60, 0x5c, 0x3f, 0x24, 0x5b, 0x5d, 0x5f, 0x0a, 0x09, 0x1a, 0]),
        };
        if let Some(ch) = char::from_u32(c) { return ch; }
    }
}

pub fn random_string(r: &mut SplitMix64, max_len: u64) -> String {
    let n = r.below(max_len + 1);
    (0..n).map(|_| random_char(r)).collect()
}

pub fn catch<T>(f: impl FnOnce() -> T) -> Option<T> {
    std::panic::catch_unwind(std::panic::AssertUnwindSafe(f)).ok()
}

/// `ColumnType::Array(elem)` built through the public API (independent of the pointer type the variant holds)
pub fn array_of(elem: sea_query::ColumnType) -> sea_query::ColumnType {
    let mut c = sea_query::ColumnDef::new(sea_query::Alias::new("x"));
    c.array(elem);
    c.get_column_type().expect("array type").clone()
}
