//! C04: identifiers are quoted so that they decode to the supplied name.
use crate::reflex::{self, B, Tok};
use crate::sq::*;
use crate::*;
use sea_query::extension::postgres::Type;
use sea_query::*;

fn prepare(b: B, name: &str) -> Option<String> {
    let n = name.to_string();
    catch(move || { let mut s = String::new(); Alias::new(&n).prepare(&mut s, qb(b).quote()); s })
}

fn fail(ctx: &mut Ctx, class: Option<&'static str>, what: &str, input: serde_json::Value) {
    let mut v = input;
    if let Some(c) = class { v["class"] = serde_json::json!(c); ctx.count(&format!("oracle.known.{c}")); } else { ctx.count("oracle.unclassified"); }
    ctx.oracle_fail(what, v);
}

fn check_name(ctx: &mut Ctx, b: B, name: &str) {
    let out = prepare(b, name);
    let (nc, bn) = (name.to_string(), b.name());
    let expect = match &out { Some(s) => format!("ok {}", hs(s)), None => "panic".into() };
    ctx.case(format!("ident {} {}", bn, hs(name)), expect, !name.is_empty(), &|| format!("Alias({:?}).prepare({})", nc, bn));
    match out {
        None => fail(ctx, None, "Iden::prepare panicked", serde_json::json!({"backend": bn, "name": name})),
        Some(sql) => match reflex::lex(b, &sql) {
            Ok(toks) if toks.len() == 1 && toks[0] == Tok::Ident(name.to_string()) => ctx.count("ident.ok"),
            other => fail(ctx, None, "the quoted identifier is not ONE identifier token decoding to the name",
                serde_json::json!({"backend": bn, "name": name, "sql": sql, "engine_sees": format!("{:?}", other)})),
        },
    }
}

type Nm<'a> = &'a dyn Fn(usize) -> String;

/// statement templates covering every identifier position; `n(i)` supplies the i-th name
fn templates(b: B, n: Nm) -> Vec<(&'static str, Option<String>)> {
    let a = |i: usize| Alias::new(n(i));
    let mut v: Vec<(&'static str, Option<String>)> = Vec::new();
    // table / schema / column / alias positions of SELECT
    let q = Query::select()
        .expr_as(Expr::col((a(0), a(1))), a(2))
        .column((a(3), a(0), a(4)))
        .from_as((a(3), a(0)), a(5))
        .join_as(JoinType::LeftJoin, a(6), a(7), Expr::col((a(7), a(8))).equals((a(5), a(1))))
        .and_where(Expr::col(a(9)).eq(1))
        .group_by_col(a(10))
        .order_by((a(5), a(11)), Order::Asc)
        .to_owned();
    v.push(("select", to_string_q(b, &q)));
    let q = Query::select().column(ColumnRef::TableAsterisk(a(0).into_iden())).from((a(1), a(2), a(0))).to_owned();
    v.push(("select db.schema.table", to_string_q(b, &q)));
    // CTE names and columns
    let cte = CommonTableExpression::new().query(Query::select().column(a(0)).from(a(1)).to_owned())
        .table_name(a(2)).columns([a(3), a(4)]).to_owned();
    let q = Query::select().column(a(3)).from(a(2)).to_owned().with(WithClause::new().cte(cte).to_owned());
    v.push(("with cte", std::panic::catch_unwind(std::panic::AssertUnwindSafe(|| match b { B::Mysql => q.to_string(MysqlQueryBuilder), B::Postgres => q.to_string(PostgresQueryBuilder), B::Sqlite => q.to_string(SqliteQueryBuilder) })).ok()));
    // window names
    let q = Query::select().from(a(0))
        .expr_window_name_as(Expr::col(a(1)), a(2), a(3))
        .window(a(2), WindowStatement::partition_by(a(4)))
        .to_owned();
    v.push(("window", to_string_q(b, &q)));
    // INSERT … ON CONFLICT … RETURNING
    let q = Query::insert().into_table(a(0)).columns([a(1), a(2)]).values_panic([1.into(), 2.into()])
        .on_conflict(OnConflict::column(a(1)).update_columns([a(2)]).to_owned())
        .returning(Query::returning().columns([a(1)])).to_owned();
    v.push(("insert on conflict returning", to_string_q(b, &q)));
    let q = Query::update().table(a(0)).value(a(1), 1).and_where(Expr::col((a(0), a(2))).eq(2))
        .returning_col(a(1)).to_owned();
    v.push(("update", to_string_q(b, &q)));
    let q = Query::delete().from_table((a(3), a(0))).and_where(Expr::col(a(1)).is_null()).to_owned();
    v.push(("delete", to_string_q(b, &q)));
    if b != B::Sqlite {
        let q = Query::select().column(a(1)).from(a(0)).lock_with_tables(LockType::Update, [a(0)]).to_owned();
        v.push(("lock of", to_string_q(b, &q)));
    }
    if b == B::Postgres {
        let q = Query::select().expr(Expr::val("x").as_enum(a(0))).expr(Expr::col(a(1)).as_enum(Alias::new(format!("{}[]", n(2))))).to_owned();
        v.push(("enum cast type", to_string_q(b, &q)));
    }
    // schema statements: index / constraint / foreign-key names
    let st = Table::create().table((a(0), a(1)))
        .col(ColumnDef::new(a(2)).integer().not_null())
        .col(ColumnDef::new(a(3)).string())
        .primary_key(Index::create().name(n(4)).col(a(2)))
        .index(Index::create().unique().name(n(5)).col(a(3)))
        .foreign_key(ForeignKey::create().name(n(6)).from(a(1), a(3)).to(a(7), a(8)))
        .to_owned();
    v.push(("create table", to_string_s(b, &st)));
    let st = Table::alter().table(a(0)).add_column(ColumnDef::new(a(1)).integer()).to_owned();
    v.push(("alter add column", to_string_s(b, &st)));
    let st = Table::alter().table(a(0)).rename_column(a(1), a(2)).to_owned();
    v.push(("alter rename column", to_string_s(b, &st)));
    let st = Table::alter().table(a(0)).drop_column(a(1)).to_owned();
    v.push(("alter drop column", to_string_s(b, &st)));
    let st = Table::rename().table(a(0), a(1)).to_owned();
    v.push(("rename table", to_string_s(b, &st)));
    let st = Table::drop().table(a(0)).table((a(1), a(2))).to_owned();
    v.push(("drop table", to_string_s(b, &st)));
    let st = Index::create().name(n(0)).table(a(1)).col(a(2)).col(a(3)).to_owned();
    v.push(("create index", to_string_s(b, &st)));
    let st = Index::drop().name(n(0)).table(a(1)).to_owned();
    v.push(("drop index", to_string_s(b, &st)));
    if b != B::Sqlite {
        let st = ForeignKey::create().name(n(0)).from(a(1), a(2)).to(a(3), a(4)).to_owned();
        v.push(("create foreign key", to_string_s(b, &st)));
        let st = ForeignKey::drop().name(n(0)).table(a(1)).to_owned();
        v.push(("drop foreign key", to_string_s(b, &st)));
        let st = Table::alter().table(a(0)).add_foreign_key(TableForeignKey::new().name(n(1)).from_tbl(a(0)).from_col(a(2)).to_tbl(a(3)).to_col(a(4))).to_owned();
        v.push(("alter add foreign key", to_string_s(b, &st)));
        let st = Table::alter().table(a(0)).drop_foreign_key(a(1)).to_owned();
        v.push(("alter drop foreign key", to_string_s(b, &st)));
    }
    // the one place where an identifier is quoted when the expression is CONSTRUCTED (the caller passes the quote)
    let q = Query::select().expr(Func::cast_as_quoted(Expr::col(a(0)), a(1), qb(b).quote())).from(a(2)).to_owned();
    v.push(("cast_as_quoted type name", to_string_q(b, &q)));
    if b == B::Postgres {
        let st = Type::create().as_enum((a(0), a(1))).values([Alias::new("v")]).to_owned();
        v.push(("create type", catch(|| st.to_string(PostgresQueryBuilder))));
        let st = Type::drop().name(a(0)).name(a(1)).to_owned();
        v.push(("drop type", catch(|| st.to_string(PostgresQueryBuilder))));
        let st = Type::alter().name(a(0)).add_value(Alias::new("v"));
        v.push(("alter type", catch(|| st.to_string(PostgresQueryBuilder))));
    }
    v
}


/// metamorphic oracle: the identifier tokens of the rendering with nasty names must be the
/// identifier tokens of the rendering with plain names, name for name
fn check_positions(ctx: &mut Ctx, b: B, nasty: &[String]) {
    let plain = |i: usize| format!("p{i}x");
    let nn = |i: usize| nasty[i % nasty.len()].clone() + &format!("{i}");
    // the nasty text at BOTH ends of the name (a name that looks quoted already)
    // (a type name ending in `[]` means "array of" to the enum cast, by design: not such a name)
    let nn2 = |i: usize| { let s = format!("{}{i}{}", nasty[i % nasty.len()], nasty[i % nasty.len()]); if s.ends_with("[]") { s + "_" } else { s } };
    let tp = templates(b, &plain);
    let tn = templates(b, &nn);
    let tn2 = templates(b, &nn2);
    let both: Vec<((&'static str, Option<String>), (&'static str, Option<String>), bool)> = tp.iter().cloned().zip(tn.into_iter()).map(|(p, n)| (p, n, false)).chain(tp.iter().cloned().zip(tn2.into_iter()).map(|(p, n)| (p, n, true))).collect();
    for ((pos, sp), (_, sn), wrapped) in both.into_iter() {
        let nn = |i: usize| if wrapped { nn2(i) } else { nn(i) };
        ctx.eval_only(&format!("pos {} {} {:?}", b.name(), pos, nasty), true);
        ctx.count(&format!("position.{pos}"));
        let (sp, sn) = match (sp, sn) {
            (Some(a), Some(c)) => (a, c),
            (None, None) => { ctx.count("position.unsupported"); continue; }
            (a, c) => { fail(ctx, None, "rendering panics only for one of the two name sets", serde_json::json!({"backend": b.name(), "position": pos, "plain": a, "nasty": c})); continue; }
        };
        let lp = reflex::lex(b, &sp);
        let expected: Vec<String> = match &lp {
            Ok(t) => reflex::idents(t).into_iter().map(|id| {
                // p<i>x -> nasty name i ; anything else (e.g. `excluded`) stays
                if let Some(num) = id.strip_prefix('p').and_then(|r| r.strip_suffix('x')).and_then(|r| r.parse::<usize>().ok()) { nn(num) }
                else if let Some(num) = id.strip_prefix('p').and_then(|r| r.strip_suffix("x[]")).and_then(|r| r.parse::<usize>().ok()) { nn(num) + "[]" }
                else { id }
            }).collect(),
            Err(e) => { fail(ctx, None, "reference lexer rejects the plain-name rendering", serde_json::json!({"backend": b.name(), "position": pos, "sql": sp, "lex_error": e})); continue; }
        };
        let q = b.quote();
        let raw_class: Option<&'static str> = None; let _ = q;
        match reflex::lex(b, &sn) {
            Ok(t) => {
                let got = reflex::idents(&t);
                if got != expected {
                    fail(ctx, raw_class, "identifier tokens seen by the engine differ from the supplied names",
                        serde_json::json!({"backend": b.name(), "position": pos, "sql": sn, "expected": expected, "engine_sees": got}));
                } else {
                    // everything else must be unchanged too
                    let strip = |t: &[Tok]| t.iter().filter(|x| !matches!(x, Tok::Ident(_))).cloned().collect::<Vec<_>>();
                    if strip(&t) != strip(lp.as_ref().unwrap()) {
                        fail(ctx, raw_class, "a name changed the non-identifier tokens of the statement",
                            serde_json::json!({"backend": b.name(), "position": pos, "sql": sn, "plain_sql": sp}));
                    }
                }
            }
            Err(e) => fail(ctx, raw_class, "the engine's lexer rejects the statement",
                serde_json::json!({"backend": b.name(), "position": pos, "sql": sn, "lex_error": e})),
        }
    }
}

// ---- derived identifiers (the derive macro generates a quoting fast path of its own) ----
// These types are expanded by /repo's sea-query-derive at harness build time.
#[derive(Iden)]
enum DPlain { Table, Id, #[iden = "a\"b"] DQuote, #[iden(rename = "c`d")] Tick, #[iden = "e\"\"f``g"] Both }
#[derive(Iden)]
enum DAllValid { Table, FirstName, X9 }
#[derive(Iden)]
#[iden = "ta\"ble`x"]
enum DTableRenamed { Table, Col }
#[derive(Iden)]
enum DWithMethod { Table, #[iden = "q\"r`s"] Ren, #[method = "m"] Meth }
impl DWithMethod { fn m(&self) -> &'static str { "me\"th`od" } }
#[derive(Iden)]
#[iden = "un\"it`s"]
struct DUnit;
#[derive(Iden)]
struct DUnitPlain;

fn check_derived(ctx: &mut Ctx) {
    let items: Vec<(&'static str, Box<dyn Iden>)> = vec![
        ("DPlain::Table", Box::new(DPlain::Table)), ("DPlain::Id", Box::new(DPlain::Id)), ("DPlain::DQuote", Box::new(DPlain::DQuote)),
        ("DPlain::Tick", Box::new(DPlain::Tick)), ("DPlain::Both", Box::new(DPlain::Both)),
        ("DAllValid::Table", Box::new(DAllValid::Table)), ("DAllValid::FirstName", Box::new(DAllValid::FirstName)), ("DAllValid::X9", Box::new(DAllValid::X9)),
        ("DTableRenamed::Table", Box::new(DTableRenamed::Table)), ("DTableRenamed::Col", Box::new(DTableRenamed::Col)),
        ("DWithMethod::Table", Box::new(DWithMethod::Table)), ("DWithMethod::Ren", Box::new(DWithMethod::Ren)), ("DWithMethod::Meth", Box::new(DWithMethod::Meth)),
        ("DUnit", Box::new(DUnit)), ("DUnitPlain", Box::new(DUnitPlain)),
    ];
    for (label, it) in items {
        for b in B::all() {
            ctx.eval_only(&format!("derived {label} {}", b.name()), true);
            ctx.count("position.derived identifier");
            let name = it.to_string();
            let mut sql = String::new();
            let ok = catch(|| it.prepare(&mut sql, qb(b).quote())).is_some();
            let general = prepare(b, &name);
            let good = ok && matches!(reflex::lex(b, &sql), Ok(ref t) if t.len() == 1 && t[0] == Tok::Ident(name.clone()));
            if !good || general.as_deref() != Some(sql.as_str()) {
                fail(ctx, None, "a derived identifier's prepare() is not one identifier token decoding to its name (or differs from the general quoting)",
                    serde_json::json!({"backend": b.name(), "type": label, "name": name, "sql": sql, "general_quoting": general}));
            }
        }
    }
}

pub const ALPHABET: [char; 11] = ['a', '"', '`', ']', '[', '\'', '\\', ' ', '.', 'é', '?'];

pub fn run(ctx: &mut Ctx) {
    let max_len = if ctx.tier_thorough { 5 } else { 4 };
    let nrand = if ctx.tier_thorough { 100000 } else { 10000 };
    ctx.rule = format!("Iden::prepare on ALL names over the {}-symbol alphabet {:?} up to length {} (exhaustive) x 3 backends + {} random Unicode names (NUL excluded: no engine can represent it in an identifier); long names (30 .. 1000 characters, around the engines' 63 / 64 / 128-byte identifier limits, quote characters at the end / throughout / at the start); then ~25 statement templates covering every identifier position (table, schema, database, column, alias, CTE name and columns, window, ON CONFLICT, RETURNING, lock OF, index / constraint / foreign-key names, type names, enum-cast type) rendered with nasty names and compared token-for-token with the plain-name rendering under an independent reference lexer. Non-trivial = non-empty name; distinct by request.", ALPHABET.len(), ALPHABET, max_len, nrand);
    if let Some(rp) = ctx.replay.clone() {
        let i = rp.get("input").cloned().unwrap_or_default();
        let b = match i.get("backend").and_then(|x| x.as_str()) { Some("mysql") => B::Mysql, Some("postgres") => B::Postgres, _ => B::Sqlite };
        if let Some(s) = i.get("name").and_then(|x| x.as_str()) { check_name(ctx, b, s); check_positions(ctx, b, &[s.to_string()]); }
        return;
    }
    check_derived(ctx);
    for b in B::all() {
        for len in 0..=max_len { for_each_string(&ALPHABET, len, &mut |s| check_name(ctx, b, s)); }
        for len in 0..=2 {
            let mut strs = Vec::new();
            for_each_string(&ALPHABET, len, &mut |s| strs.push(s.to_string()));
            for (k, s) in strs.iter().enumerate() {
                let t = strs[(k * 7 + 3) % strs.len()].clone();
                check_positions(ctx, b, &[s.clone(), t]);
            }
        }
    }
    // long names: nothing may be cut, clamped or re-chunked around an engine's identifier limits (63 / 64 / 128 bytes), also
    // when the escaped form is what crosses the limit
    for b in B::all() {
        for len in [30usize, 31, 32, 59, 60, 61, 62, 63, 64, 65, 126, 127, 128, 129, 255, 256, 1000] {
            for q in ['"', '`', ']', '\'', 'é', 'a'] {
                let tail = format!("{}{q}", "a".repeat(len - 1));
                let dense: String = (0..len).map(|i| if i % 2 == 0 { q } else { 'a' }).collect();
                let head = format!("{q}{}", "a".repeat(len - 1));
                for name in [tail, dense, head] { check_name(ctx, b, &name); if len <= 129 { check_positions(ctx, b, &[name.clone(), "x".to_string()]); check_positions(ctx, b, &["x".to_string(), name]); } }
            }
        }
    }
    ctx.exhaustive = true;
    for k in 0..nrand {
        let mut r = ctx.rng.fork();
        let mut s = random_string(&mut r, 12);
        s.retain(|c| c != '\0');
        let b = *r.pick(&B::all());
        check_name(ctx, b, &s);
        if k % 8 == 0 {
            let mut t = random_string(&mut r, 5); t.retain(|c| c != '\0');
            check_positions(ctx, b, &[s, t]);
        }
    }
}
