//! Schema-statement recipes: an AST for CREATE / ALTER / DROP / RENAME / TRUNCATE TABLE, CREATE / DROP INDEX and
//! ADD / DROP FOREIGN KEY, its S-expression form (read by the Lean driver, `Driver/Ddl.lean`), the builder that
//! constructs the crate's statements through the public API, and a seeded generator.
use crate::stmt::{Ex, Gen, Holder, TName};
use crate::util::*;
use crate::reflex::B;
use sea_query::*;

#[derive(Clone, Debug)]
pub enum StrLen { None, N(u32), Max }
#[derive(Clone, Debug)]
pub enum CT {
    Char(Option<u32>), String(StrLen), Text, Blob, TinyInteger, SmallInteger, Integer, BigInteger, TinyUnsigned, SmallUnsigned, Unsigned, BigUnsigned,
    Float, Double, Decimal(Option<(u32, u32)>), DateTime, Timestamp, TimestampWithTimeZone, Time, Date, Year, Interval(Option<u32>, Option<u32>),
    Binary(u32), VarBinary(StrLen), Bit(Option<u32>), VarBit(u32), Boolean, Money(Option<(u32, u32)>), Json, JsonBinary, Uuid,
    Custom(String), Enum(String, Vec<String>), Array(Box<CT>), Vector(Option<u32>), Cidr, Inet, MacAddr, LTree,
}
#[derive(Clone, Debug)]
pub enum Spec { Null, NotNull, Default(Ex), Auto, Unique, Pk, Check(Ex), Generated(Ex, bool), Extra(String), Comment(String), Using(Ex) }
#[derive(Clone, Debug)]
pub struct Col { pub name: String, pub ty: Option<CT>, pub specs: Vec<Spec> }
#[derive(Clone, Debug)]
pub struct IdxCol { pub name: String, pub prefix: Option<u32>, pub order: Option<bool> }
#[derive(Clone, Debug)]
pub enum IT { BTree, FullText, Hash, Custom(String) }
#[derive(Clone, Debug)]
pub struct Index { pub name: Option<String>, pub cols: Vec<IdxCol>, pub table: Option<TName>, pub primary: bool, pub unique: bool, pub nnd: bool, pub it: Option<IT>, pub ine: bool, pub include: Vec<String>, pub wher: Holder }
#[derive(Clone, Debug)]
pub struct Fk { pub name: Option<String>, pub table: Option<TName>, pub ref_table: Option<TName>, pub cols: Vec<String>, pub refs: Vec<String>, pub on_delete: Option<u32>, pub on_update: Option<u32> }
#[derive(Clone, Debug)]
pub enum TOpt { Engine(String), Collate(String), Charset(String) }
#[derive(Clone, Debug)]
pub struct Create { pub table: Option<TName>, pub cols: Vec<Col>, pub opts: Vec<TOpt>, pub idx: Vec<Index>, pub fks: Vec<Fk>, pub ine: bool, pub checks: Vec<Ex>, pub comment: Option<String>, pub extra: Option<String>, pub temp: bool }
#[derive(Clone, Debug)]
pub enum AOpt { Add(Col, bool), Modify(Col), Rename(String, String), DropC(String), AddFk(Fk), DropFk(String) }
#[derive(Clone, Debug)]
pub enum Ddl {
    Create(Create), Alter(Option<TName>, Vec<AOpt>), Drop(Vec<TName>, bool, Vec<u32>), Rename(Option<TName>, Option<TName>), Truncate(Option<TName>),
    IdxCreate(Index), IdxDrop(Option<String>, Option<TName>, bool), FkCreate(Fk), FkDrop(Option<String>, Option<TName>),
    /// Postgres only
    TypeCreate(Option<Vec<String>>, bool, Vec<String>), TypeDrop(Vec<Vec<String>>, bool, Option<u32>), TypeAlter(Option<Vec<String>>, Option<TAOpt>),
    ExtCreate(String, Option<String>, Option<String>, bool, bool), ExtDrop(String, bool, bool, bool),
}
#[derive(Clone, Debug)]
pub enum TAOpt { Add(String, Option<(bool, String)>, bool), Rename(String), RenameValue(String, String) }

// ---------------------------------------------------------------- S-expressions

fn opt<T>(o: &Option<T>, f: impl Fn(&T) -> String) -> String { match o { Some(x) => f(x), None => "-".into() } }
fn join<T>(xs: &[T], f: impl Fn(&T) -> String) -> String { xs.iter().map(f).collect::<Vec<_>>().join(" ") }
fn b01(b: bool) -> &'static str { if b { "1" } else { "0" } }
fn slen(l: &StrLen) -> String { match l { StrLen::None => "none".into(), StrLen::Max => "max".into(), StrLen::N(n) => n.to_string() } }
fn pair(p: &Option<(u32, u32)>) -> String { match p { Some((a, b)) => format!("{a} {b}"), None => "-".into() } }

impl CT {
    pub fn name(&self) -> &'static str {
        match self {
            CT::Char(_) => "Char", CT::String(_) => "String", CT::Text => "Text", CT::Blob => "Blob", CT::TinyInteger => "TinyInteger", CT::SmallInteger => "SmallInteger",
            CT::Integer => "Integer", CT::BigInteger => "BigInteger", CT::TinyUnsigned => "TinyUnsigned", CT::SmallUnsigned => "SmallUnsigned", CT::Unsigned => "Unsigned",
            CT::BigUnsigned => "BigUnsigned", CT::Float => "Float", CT::Double => "Double", CT::Decimal(_) => "Decimal", CT::DateTime => "DateTime", CT::Timestamp => "Timestamp",
            CT::TimestampWithTimeZone => "TimestampWithTimeZone", CT::Time => "Time", CT::Date => "Date", CT::Year => "Year", CT::Interval(..) => "Interval", CT::Binary(_) => "Binary",
            CT::VarBinary(_) => "VarBinary", CT::Bit(_) => "Bit", CT::VarBit(_) => "VarBit", CT::Boolean => "Boolean", CT::Money(_) => "Money", CT::Json => "Json",
            CT::JsonBinary => "JsonBinary", CT::Uuid => "Uuid", CT::Custom(_) => "Custom", CT::Enum(..) => "Enum", CT::Array(_) => "Array", CT::Vector(_) => "Vector",
            CT::Cidr => "Cidr", CT::Inet => "Inet", CT::MacAddr => "MacAddr", CT::LTree => "LTree",
        }
    }
    pub fn sexp(&self) -> String {
        let n = self.name();
        match self {
            CT::Char(l) | CT::Bit(l) | CT::Vector(l) => format!("(ct {n} {})", opt(l, |x| x.to_string())),
            CT::String(l) | CT::VarBinary(l) => format!("(ct {n} {})", slen(l)),
            CT::Decimal(p) | CT::Money(p) => format!("(ct {n} {})", pair(p)),
            CT::Interval(f, p) => format!("(ct {n} {} {})", opt(f, |x| x.to_string()), opt(p, |x| x.to_string())),
            CT::Binary(k) | CT::VarBit(k) => format!("(ct {n} {k})"),
            CT::Custom(s) => format!("(ct {n} {})", hs(s)),
            CT::Enum(name, vs) => format!("(ct {n} {} ({}))", hs(name), join(vs, |v| hs(v))),
            CT::Array(e) => format!("(ct {n} {})", e.sexp()),
            _ => format!("(ct {n})"),
        }
    }
    pub fn build(&self) -> ColumnType {
        fn sl(l: &StrLen) -> StringLen { match l { StrLen::None => StringLen::None, StrLen::Max => StringLen::Max, StrLen::N(n) => StringLen::N(*n) } }
        match self {
            CT::Char(l) => ColumnType::Char(*l), CT::String(l) => ColumnType::String(sl(l)), CT::Text => ColumnType::Text, CT::Blob => ColumnType::Blob,
            CT::TinyInteger => ColumnType::TinyInteger, CT::SmallInteger => ColumnType::SmallInteger, CT::Integer => ColumnType::Integer, CT::BigInteger => ColumnType::BigInteger,
            CT::TinyUnsigned => ColumnType::TinyUnsigned, CT::SmallUnsigned => ColumnType::SmallUnsigned, CT::Unsigned => ColumnType::Unsigned, CT::BigUnsigned => ColumnType::BigUnsigned,
            CT::Float => ColumnType::Float, CT::Double => ColumnType::Double, CT::Decimal(p) => ColumnType::Decimal(*p), CT::DateTime => ColumnType::DateTime,
            CT::Timestamp => ColumnType::Timestamp, CT::TimestampWithTimeZone => ColumnType::TimestampWithTimeZone, CT::Time => ColumnType::Time, CT::Date => ColumnType::Date,
            CT::Year => ColumnType::Year,
            CT::Interval(f, p) => ColumnType::Interval(f.map(|i| match i {
                0 => PgInterval::Year, 1 => PgInterval::Month, 2 => PgInterval::Day, 3 => PgInterval::Hour, 4 => PgInterval::Minute, 5 => PgInterval::Second,
                6 => PgInterval::YearToMonth, 7 => PgInterval::DayToHour, 8 => PgInterval::DayToMinute, 9 => PgInterval::DayToSecond, 10 => PgInterval::HourToMinute,
                11 => PgInterval::HourToSecond, _ => PgInterval::MinuteToSecond }), *p),
            CT::Binary(n) => ColumnType::Binary(*n), CT::VarBinary(l) => ColumnType::VarBinary(sl(l)), CT::Bit(l) => ColumnType::Bit(*l), CT::VarBit(n) => ColumnType::VarBit(*n),
            CT::Boolean => ColumnType::Boolean, CT::Money(p) => ColumnType::Money(*p), CT::Json => ColumnType::Json, CT::JsonBinary => ColumnType::JsonBinary, CT::Uuid => ColumnType::Uuid,
            CT::Custom(s) => ColumnType::Custom(Alias::new(s).into_iden()),
            CT::Enum(n, vs) => ColumnType::Enum { name: Alias::new(n).into_iden(), variants: vs.iter().map(|v| Alias::new(v).into_iden()).collect() },
            CT::Array(e) => crate::util::array_of(e.build()),
            CT::Vector(l) => ColumnType::Vector(*l), CT::Cidr => ColumnType::Cidr, CT::Inet => ColumnType::Inet, CT::MacAddr => ColumnType::MacAddr, CT::LTree => ColumnType::LTree,
        }
    }
}
impl Spec {
    pub fn sexp(&self) -> String {
        match self {
            Spec::Null => "null".into(), Spec::NotNull => "notnull".into(), Spec::Auto => "auto".into(), Spec::Unique => "unique".into(), Spec::Pk => "pk".into(),
            Spec::Default(e) => format!("(default {})", e.sexp()), Spec::Check(e) => format!("(check {})", e.sexp()), Spec::Generated(e, s) => format!("(gen {} {})", e.sexp(), b01(*s)),
            Spec::Extra(s) => format!("(extra {})", hs(s)), Spec::Comment(s) => format!("(comment {})", hs(s)), Spec::Using(e) => format!("(using {})", e.sexp()),
        }
    }
    pub fn tag(&self) -> &'static str {
        match self { Spec::Null => "null", Spec::NotNull => "notnull", Spec::Auto => "auto", Spec::Unique => "unique", Spec::Pk => "pk", Spec::Default(_) => "default", Spec::Check(_) => "check",
            Spec::Generated(..) => "generated", Spec::Extra(_) => "extra", Spec::Comment(_) => "comment", Spec::Using(_) => "using" }
    }
}
impl Col {
    pub fn sexp(&self) -> String { format!("(col {} {} ({}))", hs(&self.name), opt(&self.ty, CT::sexp), join(&self.specs, Spec::sexp)) }
    pub fn build(&self) -> ColumnDef {
        let mut c = match &self.ty { Some(t) => ColumnDef::new_with_type(Alias::new(&self.name), t.build()), None => ColumnDef::new(Alias::new(&self.name)) };
        for s in &self.specs {
            match s {
                Spec::Null => { c.null(); } Spec::NotNull => { c.not_null(); } Spec::Default(e) => { c.default(e.build()); } Spec::Auto => { c.auto_increment(); }
                Spec::Unique => { c.unique_key(); } Spec::Pk => { c.primary_key(); } Spec::Check(e) => { c.check(e.build()); } Spec::Generated(e, st) => { c.generated(e.build(), *st); }
                Spec::Extra(x) => { c.extra(x.clone()); } Spec::Comment(x) => { c.comment(x.clone()); } Spec::Using(e) => { c.using(e.build()); }
            }
        }
        c
    }
}
impl IdxCol { pub fn sexp(&self) -> String { format!("(ic {} {} {})", hs(&self.name), opt(&self.prefix, |p| p.to_string()), opt(&self.order, |o| b01(*o).to_string())) } }
impl Index {
    pub fn sexp(&self) -> String {
        format!("(idx {} ({}) {} {} {} {} {} {} ({}) {})", opt(&self.name, |n| hs(n)), join(&self.cols, IdxCol::sexp), opt(&self.table, TName::sexp), b01(self.primary), b01(self.unique), b01(self.nnd),
            match &self.it { None => "-".into(), Some(IT::BTree) => "bt".into(), Some(IT::FullText) => "ft".into(), Some(IT::Hash) => "hash".into(), Some(IT::Custom(s)) => format!("(cu {})", hs(s)) },
            b01(self.ine), join(&self.include, |c| hs(c)), self.wher.sexp())
    }
    pub fn build(&self) -> IndexCreateStatement {
        let mut i = sea_query::Index::create();
        if let Some(n) = &self.name { i.name(n); }
        if let Some(t) = &self.table { i.table(t.build()); }
        for c in &self.cols {
            let n = Alias::new(&c.name);
            let ord = |o: bool| if o { IndexOrder::Desc } else { IndexOrder::Asc };
            match (c.prefix, c.order) { (None, None) => i.col(n), (Some(p), None) => i.col((n, p)), (None, Some(o)) => i.col((n, ord(o))), (Some(p), Some(o)) => i.col((n, p, ord(o))) };
        }
        if self.primary { i.primary(); }
        if self.unique { i.unique(); }
        if self.nnd { i.nulls_not_distinct(); }
        match &self.it { None => {} Some(IT::BTree) => { i.index_type(IndexType::BTree); } Some(IT::FullText) => { i.full_text(); } Some(IT::Hash) => { i.index_type(IndexType::Hash); }
            Some(IT::Custom(s)) => { i.index_type(IndexType::Custom(Alias::new(s).into_iden())); } }
        if self.ine { i.if_not_exists(); }
        for c in &self.include { i.include(Alias::new(c)); }
        match &self.wher { Holder::Empty => {} Holder::Chain(es) => { for (or, e) in es { i.and_or_where(if *or { LogicalChainOper::Or(e.build()) } else { LogicalChainOper::And(e.build()) }); } } Holder::Cond(c) => { i.cond_where(c.build()); } }
        i
    }
}
fn action(a: u32) -> ForeignKeyAction { match a { 0 => ForeignKeyAction::Restrict, 1 => ForeignKeyAction::Cascade, 2 => ForeignKeyAction::SetNull, 3 => ForeignKeyAction::NoAction, _ => ForeignKeyAction::SetDefault } }
impl Fk {
    pub fn sexp(&self) -> String {
        format!("(fk {} {} {} ({}) ({}) {} {})", opt(&self.name, |n| hs(n)), opt(&self.table, TName::sexp), opt(&self.ref_table, TName::sexp), join(&self.cols, |c| hs(c)), join(&self.refs, |c| hs(c)),
            opt(&self.on_delete, |a| a.to_string()), opt(&self.on_update, |a| a.to_string()))
    }
    pub fn build(&self) -> ForeignKeyCreateStatement {
        let mut f = ForeignKey::create();
        if let Some(n) = &self.name { f.name(n); }
        if let Some(t) = &self.table { f.from_tbl(t.build()); }
        if let Some(t) = &self.ref_table { f.to_tbl(t.build()); }
        for c in &self.cols { f.from_col(Alias::new(c)); }
        for c in &self.refs { f.to_col(Alias::new(c)); }
        if let Some(a) = self.on_delete { f.on_delete(action(a)); }
        if let Some(a) = self.on_update { f.on_update(action(a)); }
        f
    }
    pub fn build_table_fk(&self) -> TableForeignKey {
        let mut f = TableForeignKey::new();
        if let Some(n) = &self.name { f.name(n); }
        if let Some(t) = &self.table { f.from_tbl(t.build()); }
        if let Some(t) = &self.ref_table { f.to_tbl(t.build()); }
        for c in &self.cols { f.from_col(Alias::new(c)); }
        for c in &self.refs { f.to_col(Alias::new(c)); }
        if let Some(a) = self.on_delete { f.on_delete(action(a)); }
        if let Some(a) = self.on_update { f.on_update(action(a)); }
        f
    }
}
impl TOpt { pub fn sexp(&self) -> String { match self { TOpt::Engine(s) => format!("(engine {})", hs(s)), TOpt::Collate(s) => format!("(collate {})", hs(s)), TOpt::Charset(s) => format!("(charset {})", hs(s)) } } }
impl AOpt {
    pub fn sexp(&self) -> String {
        match self { AOpt::Add(c, b) => format!("(add {} {})", c.sexp(), b01(*b)), AOpt::Modify(c) => format!("(modify {})", c.sexp()), AOpt::Rename(a, b) => format!("(rename {} {})", hs(a), hs(b)),
            AOpt::DropC(c) => format!("(dropc {})", hs(c)), AOpt::AddFk(f) => format!("(addfk {})", f.sexp()), AOpt::DropFk(n) => format!("(dropfk {})", hs(n)) }
    }
    pub fn tag(&self) -> &'static str { match self { AOpt::Add(..) => "add", AOpt::Modify(_) => "modify", AOpt::Rename(..) => "rename", AOpt::DropC(_) => "dropc", AOpt::AddFk(_) => "addfk", AOpt::DropFk(_) => "dropfk" } }
}

fn type_ref(parts: &[String]) -> extension::postgres::TypeRef {
    use extension::postgres::TypeRef;
    let i = |s: &String| Alias::new(s).into_iden();
    // through the public conversions (a name, a pair, a triple), which must build the variants one would write by hand
    use extension::postgres::IntoTypeRef;
    let a = |s: &String| Alias::new(s);
    let (built, by_hand) = match parts.len() { 1 => (a(&parts[0]).into_type_ref(), TypeRef::Type(i(&parts[0]))), 2 => ((a(&parts[0]), a(&parts[1])).into_type_ref(), TypeRef::SchemaType(i(&parts[0]), i(&parts[1]))),
        _ => ((a(&parts[0]), a(&parts[1]), a(&parts[2])).into_type_ref(), TypeRef::DatabaseSchemaType(i(&parts[0]), i(&parts[1]), i(&parts[2]))) };
    assert_eq!(format!("{built:?}"), format!("{by_hand:?}"), "IntoTypeRef builds another variant than the one written by hand");
    built
}

pub enum PgReal { TC(extension::postgres::TypeCreateStatement), TD(extension::postgres::TypeDropStatement), TA(extension::postgres::TypeAlterStatement),
    EC(extension::postgres::ExtensionCreateStatement), ED(extension::postgres::ExtensionDropStatement) }
impl PgReal {
    pub fn to_string(&self) -> String { match self { PgReal::TC(s) => s.to_string(PostgresQueryBuilder), PgReal::TD(s) => s.to_string(PostgresQueryBuilder), PgReal::TA(s) => s.to_string(PostgresQueryBuilder),
        PgReal::EC(s) => s.to_string(PostgresQueryBuilder), PgReal::ED(s) => s.to_string(PostgresQueryBuilder) } }
    pub fn build_ref(&self) -> String { match self { PgReal::TC(s) => s.build_ref(&PostgresQueryBuilder), PgReal::TD(s) => s.build_ref(&PostgresQueryBuilder), PgReal::TA(s) => s.build_ref(&PostgresQueryBuilder),
        PgReal::EC(s) => s.build_ref(&PostgresQueryBuilder), PgReal::ED(s) => s.build_ref(&PostgresQueryBuilder) } }
    pub fn debug(&self) -> String { match self { PgReal::TC(s) => format!("{s:?}"), PgReal::TD(s) => format!("{s:?}"), PgReal::TA(s) => format!("{s:?}"), PgReal::EC(s) => format!("{s:?}"), PgReal::ED(s) => format!("{s:?}") } }
}

pub enum Real { Pg(PgReal), Create(TableCreateStatement), Alter(TableAlterStatement), Drop(TableDropStatement), Rename(TableRenameStatement), Truncate(TableTruncateStatement),
    IdxCreate(IndexCreateStatement), IdxDrop(IndexDropStatement), FkCreate(ForeignKeyCreateStatement), FkDrop(ForeignKeyDropStatement) }

macro_rules! each_ddl { ($self:expr, $s:ident => $e:expr) => { match $self { Real::Pg(_) => unreachable!(), Real::Create($s) => $e, Real::Alter($s) => $e, Real::Drop($s) => $e, Real::Rename($s) => $e, Real::Truncate($s) => $e,
    Real::IdxCreate($s) => $e, Real::IdxDrop($s) => $e, Real::FkCreate($s) => $e, Real::FkDrop($s) => $e } } }

impl Real {
    pub fn build(&self, b: B) -> String {
        if let Real::Pg(p) = self { return p.to_string(); }
        each_ddl!(self, s => match b { B::Mysql => s.build(MysqlQueryBuilder), B::Postgres => s.build(PostgresQueryBuilder), B::Sqlite => s.build(SqliteQueryBuilder) })
    }
    pub fn to_string(&self, b: B) -> String {
        if let Real::Pg(p) = self { return p.build_ref(); }
        each_ddl!(self, s => match b { B::Mysql => s.to_string(MysqlQueryBuilder), B::Postgres => s.to_string(PostgresQueryBuilder), B::Sqlite => s.to_string(SqliteQueryBuilder) })
    }
    pub fn build_any(&self, b: B) -> String { if let Real::Pg(p) = self { return p.to_string(); } let q = crate::sq::sb(b); each_ddl!(self, s => s.build_any(&*q)) }
    pub fn debug(&self) -> String { if let Real::Pg(p) = self { return p.debug(); } each_ddl!(self, s => format!("{s:?}")) }
    /// the same table statement wrapped in the `TableStatement` enum: its three entry points (None for the other statement kinds)
    pub fn via_table_statement(&self, b: B) -> Option<[String; 3]> {
        let t = match self { Real::Create(s) => TableStatement::Create(s.clone()), Real::Alter(s) => TableStatement::Alter(s.clone()), Real::Drop(s) => TableStatement::Drop(s.clone()),
            Real::Rename(s) => TableStatement::Rename(s.clone()), Real::Truncate(s) => TableStatement::Truncate(s.clone()), _ => return None };
        let q = crate::sq::sb(b);
        Some(match b {
            B::Mysql => [t.build(MysqlQueryBuilder), t.to_string(MysqlQueryBuilder), t.build_any(&*q)],
            B::Postgres => [t.build(PostgresQueryBuilder), t.to_string(PostgresQueryBuilder), t.build_any(&*q)],
            B::Sqlite => [t.build(SqliteQueryBuilder), t.to_string(SqliteQueryBuilder), t.build_any(&*q)],
        })
    }
}

impl Ddl {
    pub fn kind(&self) -> &'static str {
        match self { Ddl::Create(_) => "create", Ddl::Alter(..) => "alter", Ddl::Drop(..) => "drop", Ddl::Rename(..) => "rename", Ddl::Truncate(_) => "truncate", Ddl::IdxCreate(_) => "idxcreate",
            Ddl::IdxDrop(..) => "idxdrop", Ddl::FkCreate(_) => "fkcreate", Ddl::FkDrop(..) => "fkdrop", Ddl::TypeCreate(..) => "typecreate", Ddl::TypeDrop(..) => "typedrop",
            Ddl::TypeAlter(..) => "typealter", Ddl::ExtCreate(..) => "extcreate", Ddl::ExtDrop(..) => "extdrop" }
    }
    pub fn sexp(&self) -> String {
        match self {
            Ddl::Create(c) => format!("(create {} ({}) ({}) ({}) ({}) {} ({}) {} {} {})", opt(&c.table, TName::sexp), join(&c.cols, Col::sexp), join(&c.opts, TOpt::sexp), join(&c.idx, Index::sexp),
                join(&c.fks, Fk::sexp), b01(c.ine), join(&c.checks, Ex::sexp), opt(&c.comment, |s| hs(s)), opt(&c.extra, |s| hs(s)), b01(c.temp)),
            Ddl::Alter(t, os) => format!("(alter {} {})", opt(t, TName::sexp), join(os, AOpt::sexp)),
            Ddl::Drop(ts, ie, os) => format!("(drop ({}) {} ({}))", join(ts, TName::sexp), b01(*ie), join(os, |o| o.to_string())),
            Ddl::Rename(a, b) => format!("(rename {} {})", opt(a, TName::sexp), opt(b, TName::sexp)),
            Ddl::Truncate(t) => format!("(truncate {})", opt(t, TName::sexp)),
            Ddl::IdxCreate(i) => format!("(idxcreate {})", i.sexp()),
            Ddl::IdxDrop(n, t, ie) => format!("(idxdrop {} {} {})", opt(n, |s| hs(s)), opt(t, TName::sexp), b01(*ie)),
            Ddl::FkCreate(f) => format!("(fkcreate {})", f.sexp()),
            Ddl::FkDrop(n, t) => format!("(fkdrop {} {})", opt(n, |s| hs(s)), opt(t, TName::sexp)),
            Ddl::TypeCreate(n, e, vs) => format!("(typecreate {} {} ({}))", opt(n, |p| format!("({})", join(p, |x| hs(x)))), b01(*e), join(vs, |v| hs(v))),
            Ddl::TypeDrop(ns, ie, o) => format!("(typedrop ({}) {} {})", join(ns, |p| format!("({})", join(p, |x| hs(x)))), b01(*ie), opt(o, |x| x.to_string())),
            Ddl::TypeAlter(n, o) => format!("(typealter {} {})", opt(n, |p| format!("({})", join(p, |x| hs(x)))), opt(o, |o| match o {
                TAOpt::Add(v, pl, ine) => format!("(add {} {} {})", hs(v), b01(*ine), opt(pl, |(after, x)| format!("({} {})", if *after { "after" } else { "before" }, hs(x)))),
                TAOpt::Rename(n) => format!("(rename {})", hs(n)), TAOpt::RenameValue(a, b) => format!("(renamevalue {} {})", hs(a), hs(b)) })),
            Ddl::ExtCreate(n, sc, v, c, ine) => format!("(extcreate {} {} {} {} {})", hs(n), opt(sc, |s| hs(s)), opt(v, |s| hs(s)), b01(*c), b01(*ine)),
            Ddl::ExtDrop(n, ie, c, r) => format!("(extdrop {} {} {} {})", hs(n), b01(*ie), b01(*c), b01(*r)),
        }
    }
    pub fn real(&self) -> Real {
        match self {
            Ddl::Create(c) => {
                let mut t = Table::create();
                if let Some(n) = &c.table { t.table(n.build()); }
                for col in &c.cols { t.col(col.build()); }
                for o in &c.opts { match o { TOpt::Engine(s) => { t.engine(s); } TOpt::Collate(s) => { t.collate(s); } TOpt::Charset(s) => { t.character_set(s); } } }
                for i in &c.idx { t.index(&mut i.build()); }
                for f in &c.fks { t.foreign_key(&mut f.build()); }
                if c.ine { t.if_not_exists(); }
                for e in &c.checks { t.check(e.build()); }
                if let Some(s) = &c.comment { t.comment(s); }
                if let Some(s) = &c.extra { t.extra(s); }
                if c.temp { t.temporary(); }
                Real::Create(t)
            }
            Ddl::Alter(tn, os) => {
                let mut t = Table::alter();
                if let Some(n) = tn { t.table(n.build()); }
                for o in os {
                    match o { AOpt::Add(c, false) => { t.add_column(c.build()); } AOpt::Add(c, true) => { t.add_column_if_not_exists(c.build()); } AOpt::Modify(c) => { t.modify_column(c.build()); }
                        AOpt::Rename(a, b) => { t.rename_column(Alias::new(a), Alias::new(b)); } AOpt::DropC(c) => { t.drop_column(Alias::new(c)); } AOpt::AddFk(f) => { t.add_foreign_key(&f.build_table_fk()); }
                        AOpt::DropFk(n) => { t.drop_foreign_key(Alias::new(n)); } }
                }
                Real::Alter(t)
            }
            Ddl::Drop(ts, ie, os) => {
                let mut t = Table::drop();
                for n in ts { t.table(n.build()); }
                if *ie { t.if_exists(); }
                for o in os { if *o == 0 { t.restrict(); } else { t.cascade(); } }
                Real::Drop(t)
            }
            Ddl::Rename(a, b) => {
                let mut t = Table::rename();
                match (a, b) { (Some(a), Some(b)) => { t.table(a.build(), b.build()); } _ => {} }
                Real::Rename(t)
            }
            Ddl::Truncate(tn) => { let mut t = Table::truncate(); if let Some(n) = tn { t.table(n.build()); } Real::Truncate(t) }
            Ddl::IdxCreate(i) => Real::IdxCreate(i.build()),
            Ddl::IdxDrop(n, tn, ie) => { let mut d = sea_query::Index::drop(); if let Some(n) = n { d.name(n); } if let Some(t) = tn { d.table(t.build()); } if *ie { d.if_exists(); } Real::IdxDrop(d) }
            Ddl::FkCreate(f) => Real::FkCreate(f.build()),
            Ddl::FkDrop(n, tn) => { let mut d = ForeignKey::drop(); if let Some(n) = n { d.name(n); } if let Some(t) = tn { d.table(t.build()); } Real::FkDrop(d) }
            Ddl::TypeCreate(n, e, vs) => {
                use extension::postgres::Type;
                let mut t = Type::create();
                // the name can only be set together with AS ENUM
                if let (Some(n), true) = (n, *e) { t.as_enum(type_ref(n)); }
                // the labels in one batch or in two: values() appends
                if vs.len() >= 2 && vs[0].len() % 2 == 1 { let k = vs.len() / 2; t.values(vs[..k].iter().map(|v| Alias::new(v))); t.values(vs[k..].iter().map(|v| Alias::new(v))); }
                else { t.values(vs.iter().map(|v| Alias::new(v))); }
                Real::Pg(PgReal::TC(t))
            }
            Ddl::TypeDrop(ns, ie, o) => {
                let mut t = extension::postgres::Type::drop();
                // several names: one call of names(), or name() per element (the same statement)
                // .. or name() for the first and names() for the rest: both append
                if ns.len() >= 2 && ns[0].len() % 2 == 1 { t.names(ns.iter().map(|n| type_ref(n))); }
                else if ns.len() >= 2 && ns[1].len() % 2 == 1 { t.name(type_ref(&ns[0])); t.names(ns[1..].iter().map(|n| type_ref(n))); }
                else { for n in ns { t.name(type_ref(n)); } }
                if *ie { t.if_exists(); }
                match o { Some(0) => { t.cascade(); } Some(_) => { t.restrict(); } None => {} }
                Real::Pg(PgReal::TD(t))
            }
            Ddl::TypeAlter(n, o) => {
                let mut t = extension::postgres::Type::alter();
                if let Some(n) = n { t = t.name(type_ref(n)); }
                let t = match o {
                    None => t,
                    Some(TAOpt::Add(v, pl, ine)) => { let mut x = t.add_value(Alias::new(v)); match pl { Some((false, b)) => { x = x.before(Alias::new(b)); } Some((true, a)) => { x = x.after(Alias::new(a)); } None => {} } if *ine { x = x.if_not_exists(); } x }
                    Some(TAOpt::Rename(n)) => t.rename_to(Alias::new(n)),
                    Some(TAOpt::RenameValue(a, b)) => t.rename_value(Alias::new(a), Alias::new(b)),
                };
                Real::Pg(PgReal::TA(t))
            }
            Ddl::ExtCreate(n, sc, v, c, ine) => {
                let mut e = extension::postgres::Extension::create();
                e.name(n);
                if let Some(s) = sc { e.schema(s); }
                if let Some(s) = v { e.version(s); }
                if *c { e.cascade(); }
                if *ine { e.if_not_exists(); }
                Real::Pg(PgReal::EC(e))
            }
            Ddl::ExtDrop(n, ie, c, r) => {
                let mut e = extension::postgres::Extension::drop();
                e.name(n);
                if *ie { e.if_exists(); }
                if *c { e.cascade(); }
                if *r { e.restrict(); }
                Real::Pg(PgReal::ED(e))
            }
        }
    }
}

// ---------------------------------------------------------------- generator

pub struct GenD { pub g: Gen, /// only what the backend renders without panicking, raw text plain
    pub tame: bool }

const QUOTE_NAMES: &[&str] = &["we\"ird", "ti`ck", "a\"\"b", "``", "x\"", "`y", "q'uote", "[br]"];
const RAW_TYPES: &[&str] = &["citext", "geometry", "my_type", "int8", "varchar(20)"];
const ENGINES: &[&str] = &["InnoDB", "MyISAM"];
const COLLATES: &[&str] = &["utf8mb4_unicode_ci", "C"];
const CHARSETS: &[&str] = &["utf8mb4", "latin1"];
const EXTRAS: &[&str] = &["ON UPDATE CURRENT_TIMESTAMP", "COLLATE NOCASE", "STRICT", "WITHOUT ROWID"];
const COMMENTS: &[&str] = &["", "plain", "it's", "a\\b", "q?m \"dq\"", "ünï"];

impl GenD {
    pub fn new(rng: SplitMix64, b: B, tame: bool) -> Self { let mut g = Gen::new(rng, b, true); g.plain = true; GenD { g, tame } }
    fn r(&mut self) -> &mut SplitMix64 { &mut self.g.rng }
    fn b(&self) -> B { self.g.b }
    /// wild stream: a quarter of the names contain a quote character of some dialect (every call site must escape it), another quarter are other unusual names
    pub fn name(&mut self) -> String {
        if self.tame { return self.r().pick(crate::stmt::PLAIN_NAMES).to_string(); }
        match self.r().below(4) { 0 => self.r().pick(QUOTE_NAMES).to_string(), 1 => self.r().pick(crate::stmt::NAMES).to_string(), _ => self.r().pick(crate::stmt::PLAIN_NAMES).to_string() }
    }
    fn tname(&mut self, max_parts: usize) -> TName {
        let n = if self.tame { 1 + self.r().below(max_parts as u64) as usize } else { match self.r().below(8) { 0 => 3, 1 | 2 => 2, _ => 1 } };
        let alias = if !self.tame && self.r().chance(1, 20) { Some(self.name()) } else { None };
        TName { parts: (0..n).map(|_| self.name()).collect(), alias }
    }
    fn opt_tname(&mut self, max_parts: usize) -> Option<TName> { if !self.tame && self.r().chance(1, 15) { None } else { Some(self.tname(max_parts)) } }
    fn n(&mut self) -> u32 { match self.r().below(6) { 0 => 0, 1 => 1, 2 => 16, 3 => 17, 4 => 255, _ => self.r().below(70000) as u32 } }
    fn strlen(&mut self) -> StrLen { match self.r().below(3) { 0 => StrLen::None, 1 => StrLen::Max, _ => StrLen::N(self.n()) } }
    fn pair(&mut self) -> Option<(u32, u32)> { let lim = if self.tame && self.b() == B::Sqlite { 17 } else { 40 }; if self.r().chance(1, 3) { None } else { Some((self.r().below(lim) as u32, self.r().below(10) as u32)) } }
    pub fn supported(b: B, t: &CT) -> bool {
        match (b, t) {
            (B::Mysql, CT::Array(_) | CT::Vector(_) | CT::Cidr | CT::Inet | CT::MacAddr | CT::LTree) => false,
            (B::Postgres, CT::Year) => false,
            (B::Postgres, CT::Array(e)) => Self::supported(b, e),
            (B::Sqlite, CT::Interval(..) | CT::Array(_) | CT::Vector(_) | CT::Cidr | CT::Inet | CT::MacAddr | CT::Year | CT::Bit(_) | CT::VarBit(_) | CT::LTree) => false,
            _ => true,
        }
    }
    pub fn ctype(&mut self, depth: u32) -> CT {
        loop {
            let t = match self.r().below(41) {
                0 => CT::Char(if self.r().chance(1, 2) { None } else { Some(self.n()) }), 1 => CT::String(self.strlen()), 2 => CT::Text, 3 => CT::Blob, 4 => CT::TinyInteger, 5 => CT::SmallInteger,
                6 => CT::Integer, 7 => CT::BigInteger, 8 => CT::TinyUnsigned, 9 => CT::SmallUnsigned, 10 => CT::Unsigned, 11 => CT::BigUnsigned, 12 => CT::Float, 13 => CT::Double,
                14 => CT::Decimal(self.pair()), 15 => CT::DateTime, 16 => CT::Timestamp, 17 => CT::TimestampWithTimeZone, 18 => CT::Time, 19 => CT::Date, 20 => CT::Year,
                21 => CT::Interval(if self.r().chance(1, 2) { None } else { Some(self.r().below(13) as u32) }, if self.r().chance(1, 2) { None } else { Some(self.r().below(7) as u32) }),
                22 => CT::Binary(self.n()), 23 => CT::VarBinary(self.strlen()), 24 => CT::Bit(if self.r().chance(1, 2) { None } else { Some(self.n()) }), 25 => CT::VarBit(self.n()),
                26 => CT::Boolean, 27 => CT::Money(self.pair()), 28 => CT::Json, 29 => CT::JsonBinary, 30 => CT::Uuid,
                31 => CT::Custom(if self.tame { self.r().pick(&["citext", "geometry", "my_type", "int8"]).to_string() } else { self.r().pick(RAW_TYPES).to_string() }),
                32 => { let n = self.r().below(4) as usize; CT::Enum(self.name(), (0..n).map(|_| self.r().pick(COMMENTS).to_string()).collect()) }
                33 if depth > 0 => CT::Array(Box::new(self.ctype(depth - 1))), 34 => CT::Vector(if self.r().chance(1, 2) { None } else { Some(self.n()) }),
                35 => CT::Cidr, 36 => CT::Inet, 37 => CT::MacAddr, 38 => CT::LTree, 39 => CT::Integer, _ => CT::BigInteger,
            };
            if !self.tame || Self::supported(self.b(), &t) { return t; }
        }
    }
    fn ex(&mut self) -> Ex { let d = self.r().below(3) as u32; self.g.ex(d) }
    fn spec(&mut self, ty: &Option<CT>) -> Spec {
        loop {
            let s = match self.r().below(14) {
                0 => Spec::Null, 1 | 2 => Spec::NotNull, 3 | 4 => Spec::Default(self.ex()), 5 => Spec::Auto, 6 => Spec::Unique, 7 | 8 => Spec::Pk, 9 => Spec::Check(self.ex()),
                10 => Spec::Generated(self.ex(), self.r().chance(1, 2)), 11 => Spec::Extra(self.r().pick(EXTRAS).to_string()), 12 => Spec::Comment(self.r().pick(COMMENTS).to_string()),
                _ => Spec::Using(self.ex()),
            };
            // Postgres: AUTO INCREMENT only on the three serial types
            if self.tame && self.b() == B::Postgres && matches!(s, Spec::Auto) && !matches!(ty, Some(CT::SmallInteger | CT::Integer | CT::BigInteger) | None) { continue; }
            return s;
        }
    }
    pub fn col(&mut self) -> Col {
        let ty = if self.r().chance(1, 12) { None } else { Some(self.ctype(1)) };
        let n = match self.r().below(8) { 0 => 0, 1..=3 => 1, 4 | 5 => 2, 6 => 3, _ => 5 };
        let specs = (0..n).map(|_| self.spec(&ty)).collect();
        Col { name: self.name(), ty, specs }
    }
    fn idx_col(&mut self) -> IdxCol { IdxCol { name: self.name(), prefix: if self.r().chance(1, 4) { Some(self.n()) } else { None }, order: if self.r().chance(1, 3) { Some(self.r().chance(1, 2)) } else { None } } }
    pub fn index(&mut self, in_table: bool) -> Index {
        let n = 1 + self.r().below(3) as usize;
        let max = if self.b() == B::Postgres { 2 } else { 1 };
        Index {
            name: if self.r().chance(2, 3) { Some(self.name()) } else { None }, cols: (0..n).map(|_| self.idx_col()).collect(),
            table: if in_table { None } else { self.opt_tname(max) }, primary: self.r().chance(1, 4), unique: self.r().chance(1, 3), nnd: self.r().chance(1, 6),
            it: match self.r().below(8) { 0 => Some(IT::BTree), 1 => Some(IT::FullText), 2 => Some(IT::Hash), 3 => Some(IT::Custom(self.r().pick(&["gist", "brin", "RTREE"]).to_string())), _ => None },
            ine: self.r().chance(1, 4), include: if self.r().chance(1, 5) { let k = 1 + self.r().below(2) as usize; (0..k).map(|_| self.name()).collect() } else { vec![] },
            wher: if self.r().chance(1, 4) { if self.r().chance(1, 2) { Holder::Cond(self.g.cond(1)) } else { Holder::Chain(vec![(false, self.ex()), (self.r().chance(1, 2), self.ex())]) } } else { Holder::Empty },
        }
    }
    pub fn fk(&mut self) -> Fk {
        let max = if self.b() == B::Postgres { 3 } else { 1 };
        let n = 1 + self.r().below(2) as usize;
        Fk { name: if self.r().chance(3, 4) { Some(self.name()) } else { None }, table: self.opt_tname(max), ref_table: self.opt_tname(max), cols: (0..n).map(|_| self.name()).collect(),
            refs: (0..n).map(|_| self.name()).collect(), on_delete: if self.r().chance(1, 2) { Some(self.r().below(5) as u32) } else { None }, on_update: if self.r().chance(1, 2) { Some(self.r().below(5) as u32) } else { None } }
    }
    pub fn create(&mut self) -> Create {
        let nc = match self.r().below(10) { 0 => 0, 1..=4 => 1, 5..=7 => 2, _ => 4 };
        Create {
            table: self.opt_tname(3), cols: (0..nc).map(|_| self.col()).collect(),
            opts: { let k = if self.r().chance(1, 3) { 1 + self.r().below(2) } else { 0 }; (0..k).map(|_| match self.r().below(3) { 0 => TOpt::Engine(self.r().pick(ENGINES).to_string()), 1 => TOpt::Collate(self.r().pick(COLLATES).to_string()), _ => TOpt::Charset(self.r().pick(CHARSETS).to_string()) }).collect() },
            idx: { let k = if self.r().chance(1, 3) { 1 + self.r().below(2) } else { 0 }; (0..k).map(|_| self.index(true)).collect() },
            fks: { let k = if self.r().chance(1, 3) { 1 + self.r().below(2) } else { 0 }; (0..k).map(|_| self.fk()).collect() },
            ine: self.r().chance(1, 3), checks: { let k = if self.r().chance(1, 4) { 1 + self.r().below(2) } else { 0 }; (0..k).map(|_| self.ex()).collect() },
            comment: if self.r().chance(1, 5) { Some(self.r().pick(COMMENTS).to_string()) } else { None }, extra: if self.r().chance(1, 8) { Some(self.r().pick(EXTRAS).to_string()) } else { None },
            temp: self.r().chance(1, 6),
        }
    }
    fn alter_opt(&mut self) -> AOpt {
        loop {
            let o = match self.r().below(7) { 0 | 1 => AOpt::Add(self.col(), self.r().chance(1, 3)), 2 => AOpt::Modify(self.col()), 3 => AOpt::Rename(self.name(), self.name()), 4 => AOpt::DropC(self.name()),
                5 => AOpt::AddFk(self.fk()), _ => AOpt::DropFk(self.name()) };
            if self.tame && self.b() == B::Sqlite && matches!(o, AOpt::Modify(_) | AOpt::AddFk(_) | AOpt::DropFk(_)) { continue; }
            return o;
        }
    }
    fn type_name(&mut self) -> Vec<String> { let n = match self.r().below(6) { 0 => 3, 1 => 2, _ => 1 }; (0..n).map(|_| self.name()).collect() }
    fn enum_value(&mut self) -> String { self.r().pick(COMMENTS).to_string() }
    pub fn pg_statement(&mut self) -> Ddl {
        match self.r().below(6) {
            0 | 1 => { let e = self.r().chance(5, 6); let n = self.r().below(4) as usize; Ddl::TypeCreate(if e { Some(self.type_name()) } else { None }, e, (0..n).map(|_| self.enum_value()).collect()) }
            2 => { let n = 1 + self.r().below(3) as usize; Ddl::TypeDrop((0..n).map(|_| self.type_name()).collect(), self.r().chance(1, 2), match self.r().below(3) { 0 => Some(0), 1 => Some(1), _ => None }) }
            3 => { let o = match self.r().below(5) { 0 => None, 1 | 2 => Some(TAOpt::Add(self.enum_value(), match self.r().below(3) { 0 => Some((false, self.enum_value())), 1 => Some((true, self.enum_value())), _ => None }, self.r().chance(1, 3))),
                    3 => Some(TAOpt::Rename(self.name())), _ => Some(TAOpt::RenameValue(self.enum_value(), self.enum_value())) };
                Ddl::TypeAlter(if self.r().chance(9, 10) { Some(self.type_name()) } else { None }, o) }
            4 => Ddl::ExtCreate(self.r().pick(&["ltree", "vector", "pg_trgm", "uuid-ossp"]).to_string(), if self.r().chance(1, 3) { Some(self.r().pick(&["public", "ext"]).to_string()) } else { None },
                if self.r().chance(1, 3) { Some(self.r().pick(&["1.0", "2"]).to_string()) } else { None }, self.r().chance(1, 3), self.r().chance(1, 2)),
            _ => Ddl::ExtDrop(self.r().pick(&["ltree", "vector", "pg_trgm"]).to_string(), self.r().chance(1, 2), self.r().chance(1, 3), self.r().chance(1, 3)),
        }
    }
    pub fn statement(&mut self) -> Ddl {
        if self.b() == B::Postgres && self.r().chance(1, 8) { return self.pg_statement(); }
        match self.r().below(16) {
            0..=5 => Ddl::Create(self.create()),
            6..=8 => { let n = if self.tame { if self.b() == B::Sqlite { 1 } else { 1 + self.r().below(3) } } else { self.r().below(4) };
                let mut os: Vec<AOpt> = (0..n).map(|_| self.alter_opt()).collect();
                // several foreign keys without a name, or with the same name, in one ALTER TABLE: each is its own action
                if self.b() != B::Sqlite && self.r().chance(1, 6) { let same = if self.r().chance(1, 2) { None } else { Some(self.name()) };
                    for _ in 0..2 { let mut f = self.fk(); f.name = same.clone(); let at = self.r().below(os.len() as u64 + 1) as usize; os.insert(at, AOpt::AddFk(f)); } }
                Ddl::Alter(self.opt_tname(3), os) }
            9 => { let n = 1 + self.r().below(3) as usize; Ddl::Drop((0..n).map(|_| self.tname(3)).collect(), self.r().chance(1, 2), { let k = self.r().below(3); (0..k).map(|_| self.r().below(2) as u32).collect() }) }
            10 => { let a = self.tname(3); let b = self.tname(3); if !self.tame && self.r().chance(1, 10) { Ddl::Rename(None, None) } else { Ddl::Rename(Some(a), Some(b)) } }
            11 => Ddl::Truncate(self.opt_tname(3)),
            12 | 13 => Ddl::IdxCreate(self.index(false)),
            14 => { let max = if self.b() == B::Postgres { 2 } else { 1 }; Ddl::IdxDrop(if self.r().chance(5, 6) { Some(self.name()) } else { None }, self.opt_tname(max), self.r().chance(1, 3) && !(self.tame && self.b() == B::Mysql)) }
            _ => if self.r().chance(2, 3) { Ddl::FkCreate(self.fk()) } else { let max = if self.b() == B::Postgres { 3 } else { 1 }; Ddl::FkDrop(if self.r().chance(5, 6) { Some(self.name()) } else { None }, self.opt_tname(max)) },
        }
    }
}

/// every string of the recipe (names, comments, raw texts, string values), decoded
fn recipe_strings(recipe: &str) -> std::collections::HashSet<String> {
    let mut out = std::collections::HashSet::new();
    for tok in recipe.split(|c: char| c == ' ' || c == '(' || c == ')') {
        if let Some(h) = tok.strip_prefix("h:") {
            let bytes: Vec<u8> = (0..h.len() / 2).filter_map(|i| u8::from_str_radix(&h[2 * i..2 * i + 2], 16).ok()).collect();
            if let Ok(s) = String::from_utf8(bytes) { out.insert(s); }
        }
    }
    out
}
/// string literals that are not given as `h:` strings in the recipe: Postgres bytea literals, the empty label of an empty MySQL ENUM
fn tame_value_ok(v: &str) -> bool { v.is_empty() || v.starts_with("\\x") }

/// the correspondence stream: every generated schema statement is rendered by the crate's three entry points and by the model
pub fn run_stream(ctx: &mut crate::Ctx, backends: &[B], n: usize) {
    let mut rng = ctx.rng.fork();
    for i in 0..n {
        let b = backends[i % backends.len()];
        let tame = i % 3 != 0;
        let mut g = GenD::new(rng.fork(), b, tame);
        let q = g.statement();
        let recipe = q.sexp();
        let Some(real) = catch(|| q.real()) else { ctx.count("ddl.build.panic"); continue };
        let r = catch(|| real.build(b));
        ctx.count(&format!("ddl.kind.{}", q.kind()));
        ctx.count(if r.is_some() { "ddl.render.ok" } else { "ddl.render.panic" });
        if tame && r.is_none() && !(b == B::Sqlite && matches!(q, Ddl::Truncate(_) | Ddl::FkCreate(_) | Ddl::FkDrop(..))) {
            ctx.count("ddl.tame.panic");
            ctx.oracle_fail("a schema statement built only from what the backend supports cannot be rendered (the crate panics)", serde_json::json!({"backend": b.name(), "recipe": recipe}));
        }
        let exp = match &r { Some(t) => format!("ok {}", hs(t)), None => "panic".into() };
        let sq = recipe.clone();
        ctx.case_norm(format!("ddl {} {}", b.name(), recipe), exp, true, &move || format!("{} {}", b.name(), sq), crate::c01::strip_flags(false));
        let Some(r) = r else { continue };
        // ---- the elements that were declared are the elements the dialect's reference grammar reads, one for one (counted per kind:
        // foreign keys / added / dropped / renamed columns of an ALTER TABLE, names of a DROP TYPE, labels of a CREATE TYPE)
        if tame && b != B::Sqlite {
            use crate::sqlparse::T;
            fn count(t: &T, pred: &dyn Fn(&T) -> bool) -> usize { (if pred(t) { 1 } else { 0 }) + match t { T::N(_, c) => c.iter().map(|x| count(x, pred)).sum(), T::L(_) => 0 } }
            let is_n = |k: &'static str| move |t: &T| matches!(t, T::N(x, _) if x == k);
            let is_l = |p: &'static str| move |t: &T| matches!(t, T::L(x) if x.starts_with(p));
            if let Ok(tree) = crate::c14::parse_ddl(b, &r) {
                let mut want_got: Vec<(&str, usize, usize)> = Vec::new();
                match &q {
                    Ddl::Alter(_, os) => {
                        want_got.push(("foreign keys added", os.iter().filter(|o| matches!(o, AOpt::AddFk(_))).count(), count(&tree, &is_n("foreign-key"))));
                        want_got.push(("columns added", os.iter().filter(|o| matches!(o, AOpt::Add(..))).count(), count(&tree, &is_n("add-column")) + count(&tree, &is_n("add-column-if-not-exists"))));
                        want_got.push(("columns dropped", os.iter().filter(|o| matches!(o, AOpt::DropC(_))).count(), count(&tree, &is_n("drop-column"))));
                        want_got.push(("columns renamed", os.iter().filter(|o| matches!(o, AOpt::Rename(..))).count(), count(&tree, &is_n("rename-column"))));
                    }
                    Ddl::TypeDrop(ns, _, _) => want_got.push(("type names", ns.len(), count(&tree, &is_l("name:")))),
                    Ddl::TypeCreate(Some(_), true, vs) => want_got.push(("labels", vs.len(), count(&tree, &is_l("label:")))),
                    _ => {}
                }
                ctx.count("ddl.oracle.elements");
                for (what, want, got) in want_got {
                    if want != got { ctx.oracle_fail("the schema statement does not carry exactly the declared elements", serde_json::json!({"backend": b.name(), "recipe": recipe, "sql": r, "element": what, "declared": want, "read": got})); }
                }
            } else { ctx.count("ddl.oracle.elements.unparsed"); }
        }
        // ---- independent oracles on the crate's text (reference lexer of the dialect, reference DDL grammar)
        let mut strings = recipe_strings(&recipe);
        // quoted parts of caller-supplied raw text, and the element type of an array cast, are given inside a longer string
        let extra: Vec<String> = strings.iter().flat_map(|s| {
            let mut v = Vec::new();
            if let Some(p) = s.strip_suffix("[]") { v.push(p.to_string()); }
            if s.contains('\'') || s.contains('"') || s.contains('`') { if let Ok(ts) = crate::reflex::lex(b, s) { for t in ts { match t { crate::reflex::Tok::Str(x) | crate::reflex::Tok::Ident(x) => v.push(x), _ => {} } } } }
            v }).collect();
        strings.extend(extra);
        match crate::reflex::lex(b, &r) {
            Err(e) => { if tame { ctx.oracle_fail("the schema statement cannot be read by the dialect's lexer", serde_json::json!({"backend": b.name(), "recipe": recipe, "sql": r, "error": e})); } else { ctx.count("ddl.wild.unlexable"); } }
            Ok(toks) => {
                ctx.count("ddl.oracle.lexed");
                for t in &toks {
                    match t {
                        crate::reflex::Tok::Ident(n) if !strings.contains(n) && n != "excluded" =>
                            ctx.oracle_fail("an identifier the engine reads in the schema statement is not a name that was declared", serde_json::json!({"backend": b.name(), "recipe": recipe, "sql": r, "engine_reads": n})),
                        crate::reflex::Tok::Str(v) if !strings.contains(v) && !tame_value_ok(v) =>
                            ctx.oracle_fail("a string literal the engine reads in the schema statement is not a string that was given", serde_json::json!({"backend": b.name(), "recipe": recipe, "sql": r, "engine_reads": v})),
                        _ => {}
                    }
                }
            }
        }
        // entry points agree; rendering is repeatable and leaves the statement unchanged
        let before = real.debug();
        for (name, got) in [("to_string", catch(|| real.to_string(b))), ("build_any", catch(|| real.build_any(b))), ("build (again)", catch(|| real.build(b)))] {
            if got.as_deref() != Some(r.as_str()) {
                ctx.oracle_fail("a schema rendering entry point disagrees with build()", serde_json::json!({"backend": b.name(), "recipe": recipe, "entry": name, "build": r, "got": got}));
            }
        }
        if let Some(Some(three)) = catch(|| real.via_table_statement(b)) {
            for (name, got) in ["TableStatement::build", "TableStatement::to_string", "TableStatement::build_any"].iter().zip(three.iter()) {
                if got != &r { ctx.oracle_fail("a schema rendering entry point disagrees with build()", serde_json::json!({"backend": b.name(), "recipe": recipe, "entry": name, "build": r, "got": got})); }
            }
        }
        if real.debug() != before { ctx.oracle_fail("rendering modified the schema statement", serde_json::json!({"backend": b.name(), "recipe": recipe})); }
        ctx.eval_only(&format!("ddl-entry {} {}", b.name(), recipe), false);
    }
}
