//! C12: Rust values <-> Value. `gen_values` observes the conversion wiring (which variant
//! each From / Nullable / ValueType impl uses, as_null / dummy_value, tuple shapes) and emits
//! `lean/SeaQ/Gen/Values.lean`; `run` is the classical value-level round-trip run (tests).
use crate::*;
use sea_query::*;

/// exhaustive on purpose: a new variant must be added here (and to the model) to compile
pub fn tag(v: &Value) -> &'static str {
    match v {
        Value::Bool(_) => "Bool", Value::TinyInt(_) => "TinyInt", Value::SmallInt(_) => "SmallInt", Value::Int(_) => "Int",
        Value::BigInt(_) => "BigInt", Value::TinyUnsigned(_) => "TinyUnsigned", Value::SmallUnsigned(_) => "SmallUnsigned",
        Value::Unsigned(_) => "Unsigned", Value::BigUnsigned(_) => "BigUnsigned", Value::Float(_) => "Float", Value::Double(_) => "Double",
        Value::String(_) => "String", Value::Char(_) => "Char", Value::Bytes(_) => "Bytes", Value::Json(_) => "Json",
        Value::ChronoDate(_) => "ChronoDate", Value::ChronoTime(_) => "ChronoTime", Value::ChronoDateTime(_) => "ChronoDateTime",
        Value::ChronoDateTimeUtc(_) => "ChronoDateTimeUtc", Value::ChronoDateTimeLocal(_) => "ChronoDateTimeLocal",
        Value::ChronoDateTimeWithTimeZone(_) => "ChronoDateTimeWithTimeZone", Value::TimeDate(_) => "TimeDate", Value::TimeTime(_) => "TimeTime",
        Value::TimeDateTime(_) => "TimeDateTime", Value::TimeDateTimeWithTimeZone(_) => "TimeDateTimeWithTimeZone", Value::Uuid(_) => "Uuid",
        Value::Decimal(_) => "Decimal", Value::BigDecimal(_) => "BigDecimal", Value::Array(_, _) => "Array", Value::Vector(_) => "Vector",
        Value::IpNetwork(_) => "IpNetwork", Value::MacAddress(_) => "MacAddress",
    }
}

pub fn is_null(v: &Value) -> bool {
    let d = format!("{:?}", v);
    d.ends_with("(None)") || d.ends_with(", None)")
}

/// one non-null and one null value per variant
pub fn pool() -> Vec<Value> {
    use chrono::TimeZone;
    let nn: Vec<Value> = vec![
        true.into(), 1i8.into(), 2i16.into(), 3i32.into(), 4i64.into(), 5u8.into(), 6u16.into(), 7u32.into(), 8u64.into(),
        1.5f32.into(), 2.5f64.into(), "s".into(), 'c'.into(), vec![1u8, 2].into(), serde_json::json!({"a": 1}).into(),
        chrono::NaiveDate::from_ymd_opt(2020, 1, 2).unwrap().into(), chrono::NaiveTime::from_hms_opt(1, 2, 3).unwrap().into(),
        chrono::NaiveDate::from_ymd_opt(2020, 1, 2).unwrap().and_hms_opt(1, 2, 3).unwrap().into(),
        chrono::Utc.with_ymd_and_hms(2020, 1, 2, 3, 4, 5).unwrap().into(),
        chrono::Local.with_ymd_and_hms(2020, 1, 2, 3, 4, 5).unwrap().into(),
        chrono::FixedOffset::east_opt(3600).unwrap().with_ymd_and_hms(2020, 1, 2, 3, 4, 5).unwrap().into(),
        time::Date::from_calendar_date(2020, time::Month::January, 2).unwrap().into(), time::Time::from_hms(1, 2, 3).unwrap().into(),
        time::PrimitiveDateTime::new(time::Date::from_calendar_date(2020, time::Month::January, 2).unwrap(), time::Time::from_hms(1, 2, 3).unwrap()).into(),
        time::OffsetDateTime::UNIX_EPOCH.into(), uuid::Uuid::from_u128(7).into(), rust_decimal::Decimal::new(125, 2).into(),
        "1.25".parse::<bigdecimal::BigDecimal>().unwrap().into(), vec![1i32, 2].into(), pgvector::Vector::from(vec![1.0f32, 2.0]).into(),
        "10.0.0.1/8".parse::<ipnetwork::IpNetwork>().unwrap().into(), mac_address::MacAddress::new([1, 2, 3, 4, 5, 6]).into(),
    ];
    let mut all = nn.clone();
    for v in &nn { all.push(v.as_null()); }
    all
}

struct Row { ty: String, from_tag: String, null_tag: String, null_is_null: bool, accepts: Vec<String>, accepts_null: Vec<String> }

fn observe<T>(name: &str, sample: T) -> Row where T: Into<Value> + ValueType + Nullable {
    let fv: Value = sample.into();
    let nv = T::null();
    let mut accepts = Vec::new(); let mut accepts_null = Vec::new();
    for v in pool() {
        let t = tag(&v).to_string(); let n = is_null(&v);
        let ok = catch(|| <T as ValueType>::try_from(v).is_ok()).unwrap_or(false);
        if ok { if n { accepts_null.push(t) } else { accepts.push(t) } }
    }
    Row { ty: name.into(), from_tag: tag(&fv).into(), null_tag: tag(&nv).into(), null_is_null: is_null(&nv), accepts, accepts_null }
}

fn rows() -> Vec<Row> {
    use chrono::TimeZone;
    vec![
        observe("bool", true), observe("i8", 1i8), observe("i16", 1i16), observe("i32", 1i32), observe("i64", 1i64),
        observe("u8", 1u8), observe("u16", 1u16), observe("u32", 1u32), observe("u64", 1u64), observe("f32", 1f32), observe("f64", 1f64),
        observe("char", 'x'), observe("String", String::from("x")), observe("Vec<u8>", vec![1u8]),
        observe("Json", serde_json::json!([1])),
        observe("NaiveDate", chrono::NaiveDate::from_ymd_opt(2021, 2, 3).unwrap()),
        observe("NaiveTime", chrono::NaiveTime::from_hms_opt(4, 5, 6).unwrap()),
        observe("NaiveDateTime", chrono::NaiveDate::from_ymd_opt(2021, 2, 3).unwrap().and_hms_opt(4, 5, 6).unwrap()),
        observe("DateTime<Utc>", chrono::Utc.with_ymd_and_hms(2021, 2, 3, 4, 5, 6).unwrap()),
        observe("DateTime<Local>", chrono::Local.with_ymd_and_hms(2021, 2, 3, 4, 5, 6).unwrap()),
        observe("DateTime<FixedOffset>", chrono::FixedOffset::east_opt(7200).unwrap().with_ymd_and_hms(2021, 2, 3, 4, 5, 6).unwrap()),
        observe("time::Date", time::Date::from_calendar_date(2021, time::Month::February, 3).unwrap()),
        observe("time::Time", time::Time::from_hms(4, 5, 6).unwrap()),
        observe("PrimitiveDateTime", time::PrimitiveDateTime::new(time::Date::from_calendar_date(2021, time::Month::February, 3).unwrap(), time::Time::from_hms(4, 5, 6).unwrap())),
        observe("OffsetDateTime", time::OffsetDateTime::UNIX_EPOCH),
        observe("Decimal", rust_decimal::Decimal::new(314, 2)), observe("BigDecimal", "3.14".parse::<bigdecimal::BigDecimal>().unwrap()),
        observe("Uuid", uuid::Uuid::from_u128(9)),
        observe("uuid::fmt::Braced", uuid::Uuid::from_u128(9).braced()), observe("uuid::fmt::Hyphenated", uuid::Uuid::from_u128(9).hyphenated()),
        observe("uuid::fmt::Simple", uuid::Uuid::from_u128(9).simple()), observe("uuid::fmt::Urn", uuid::Uuid::from_u128(9).urn()),
        observe("IpNetwork", "10.1.0.0/16".parse::<ipnetwork::IpNetwork>().unwrap()), observe("MacAddress", mac_address::MacAddress::new([9, 8, 7, 6, 5, 4])),
        observe("pgvector::Vector", pgvector::Vector::from(vec![0.5f32])),
        observe("Vec<i32>", vec![1i32]), observe("Vec<String>", vec![String::from("a")]), observe("Vec<f64>", vec![1f64]),
    ]
}

fn lean_list(v: &[String]) -> String { format!("[{}]", v.iter().map(|s| format!("\"{s}\"")).collect::<Vec<_>>().join(", ")) }

pub fn gen_values() -> Result<String, String> {
    let mut o = String::new();
    o.push_str("-- GENERATED by `seaq-harness gen-values`: the conversion wiring of src/value.rs observed through the public API\n-- of the current /repo (built with all-features, i.e. with the hashable-value equality). Do not edit.\nnamespace SeaQ.Gen.Values\n\n");
    o.push_str("structure ConvRow where\n  ty : String\n  fromTag : String\n  nullTag : String\n  nullIsNull : Bool\n  accepts : List String\n  acceptsNull : List String\n  deriving Repr\n\n");
    let p = pool();
    let tags: Vec<String> = p.iter().filter(|v| !is_null(v)).map(|v| tag(v).to_string()).collect();
    o.push_str(&format!("/-- all variants (one sample each) -/\ndef variants : List String := {}\n\n", lean_list(&tags)));
    o.push_str("def rows : List ConvRow := [\n");
    let rs = rows();
    for (i, r) in rs.iter().enumerate() {
        o.push_str(&format!("  ⟨\"{}\", \"{}\", \"{}\", {}, {}, {}⟩{}\n", r.ty, r.from_tag, r.null_tag, r.null_is_null, lean_list(&r.accepts), lean_list(&r.accepts_null), if i + 1 < rs.len() { "," } else { "" }));
    }
    o.push_str("]\n\n");
    // as_null / dummy_value per variant: (variant, tag of result, result is null)
    let mut an = Vec::new(); let mut dv = Vec::new();
    for v in p.iter() {
        let a = v.as_null(); let d = v.dummy_value();
        an.push(format!("(\"{}\", \"{}\", {})", tag(v), tag(&a), is_null(&a)));
        dv.push(format!("(\"{}\", \"{}\", {})", tag(v), tag(&d), is_null(&d)));
    }
    o.push_str(&format!("/-- `as_null` on a non-null and a null sample of each variant: (variant, tag of the result, result is NULL) -/\ndef asNullObs : List (String × String × Bool) := [{}]\n", an.join(", ")));
    o.push_str(&format!("/-- `dummy_value` likewise -/\ndef dummyObs : List (String × String × Bool) := [{}]\n\n", dv.join(", ")));
    // tuple shapes: arity -> (constructor, number of values)
    let shape = |t: ValueTuple| -> (String, usize) { let d = format!("{:?}", t); let name = d.split('(').next().unwrap().to_string(); let n = t.into_iter().count(); (name, n) };
    let shapes = vec![
        (1, shape(1i32.into_value_tuple())), (2, shape((1i32, 2i32).into_value_tuple())), (3, shape((1i32, 2i32, 3i32).into_value_tuple())),
        (4, shape((1, 2, 3, 4).into_value_tuple())), (5, shape((1, 2, 3, 4, 5).into_value_tuple())), (6, shape((1, 2, 3, 4, 5, 6).into_value_tuple())),
        (7, shape((1, 2, 3, 4, 5, 6, 7).into_value_tuple())), (8, shape((1, 2, 3, 4, 5, 6, 7, 8).into_value_tuple())),
        (9, shape((1, 2, 3, 4, 5, 6, 7, 8, 9).into_value_tuple())), (10, shape((1, 2, 3, 4, 5, 6, 7, 8, 9, 10).into_value_tuple())),
        (11, shape((1, 2, 3, 4, 5, 6, 7, 8, 9, 10, 11).into_value_tuple())), (12, shape((1, 2, 3, 4, 5, 6, 7, 8, 9, 10, 11, 12).into_value_tuple())),
    ];
    o.push_str(&format!("/-- `IntoValueTuple`: arity ↦ (constructor, number of values carried) -/\ndef tupleShapes : List (Nat × String × Nat) := [{}]\n", shapes.iter().map(|(n, (c, k))| format!("({n}, \"{c}\", {k})")).collect::<Vec<_>>().join(", ")));
    // which arities can be extracted from which: from_value_tuple::<n-tuple>(m-tuple) succeeds?
    let mut ext = Vec::new();
    macro_rules! tryx { ($n:expr, $t:ty, $($src:expr),+) => { $( { let src = $src; let m = src.clone().into_iter().count(); let ok = catch(|| { let _: $t = FromValueTuple::from_value_tuple(src); }).is_some(); ext.push(format!("({}, {}, {})", $n, m, ok)); } )+ } }
    let srcs: Vec<ValueTuple> = vec![1i32.into_value_tuple(), (1i32, 2i32).into_value_tuple(), (1i32, 2i32, 3i32).into_value_tuple(), (1, 2, 3, 4).into_value_tuple(), (1, 2, 3, 4, 5).into_value_tuple(), (1, 2, 3, 4, 5, 6).into_value_tuple(), (1, 2, 3, 4, 5, 6, 7, 8, 9, 10, 11, 12).into_value_tuple(), ValueTuple::Many(vec![1.into(); 13])];
    struct VT(ValueTuple); impl IntoValueTuple for VT { fn into_value_tuple(self) -> ValueTuple { self.0 } }
    for s in &srcs {
        let m = s.clone().into_iter().count();
        let mut t = |n: usize, ok: bool| ext.push(format!("({n}, {m}, {ok})"));
        t(1, catch(|| { let _: i32 = FromValueTuple::from_value_tuple(VT(s.clone())); }).is_some());
        t(2, catch(|| { let _: (i32, i32) = FromValueTuple::from_value_tuple(VT(s.clone())); }).is_some());
        t(3, catch(|| { let _: (i32, i32, i32) = FromValueTuple::from_value_tuple(VT(s.clone())); }).is_some());
        t(4, catch(|| { let _: (i32, i32, i32, i32) = FromValueTuple::from_value_tuple(VT(s.clone())); }).is_some());
        t(5, catch(|| { let _: (i32, i32, i32, i32, i32) = FromValueTuple::from_value_tuple(VT(s.clone())); }).is_some());
        t(6, catch(|| { let _: (i32, i32, i32, i32, i32, i32) = FromValueTuple::from_value_tuple(VT(s.clone())); }).is_some());
        t(12, catch(|| { let _: (i32, i32, i32, i32, i32, i32, i32, i32, i32, i32, i32, i32) = FromValueTuple::from_value_tuple(VT(s.clone())); }).is_some());
    }
    let _ = |()| { tryx!(0, i32, 1i32.into_value_tuple()); };
    o.push_str(&format!("/-- `FromValueTuple`: (target arity, source length, extraction succeeds) -/\ndef tupleExtract : List (Nat × Nat × Bool) := [{}]\n", ext.join(", ")));
    o.push_str("\nend SeaQ.Gen.Values\n");
    Ok(o)
}

// ------------------------------------------------------------------ value-level run (tests)

fn rt<T>(ctx: &mut Ctx, name: &str, x: T, same: &dyn Fn(&T, &T) -> bool) where T: Into<Value> + ValueType + Nullable + Clone + std::fmt::Debug {
    ctx.eval_only(&format!("{name}:{:?}", x), true);
    ctx.count(&format!("type.{name}"));
    let v: Value = x.clone().into();
    match catch(|| <T as ValueType>::try_from(v.clone())) {
        Some(Ok(y)) if same(&x, &y) => {}
        other => ctx.oracle_fail("T -> Value -> T does not return the value", serde_json::json!({"type": name, "value": format!("{:?}", x), "value_repr": format!("{:?}", v), "got": format!("{:?}", other.map(|r| r.ok()))})),
    }
    // Option<T>
    let ov: Value = Some(x.clone()).into();
    match catch(|| <Option<T> as ValueType>::try_from(ov.clone())) {
        Some(Ok(Some(y))) if same(&x, &y) => {}
        other => ctx.oracle_fail("Some(x) -> Value -> Option<T> does not return Some(x)", serde_json::json!({"type": name, "value": format!("{:?}", x), "got": format!("{:?}", other.map(|r| r.ok()))})),
    }
    let tv = tag(&v);
    if tag(&ov) != tv { ctx.oracle_fail("Some(x) converts to a different variant than x", serde_json::json!({"type": name})); }
}

fn none_checks<T>(ctx: &mut Ctx, name: &str) where T: Into<Value> + ValueType + Nullable + std::fmt::Debug {
    ctx.eval_only(&format!("{name}:none"), true);
    let nv: Value = Option::<T>::None.into();
    if !is_null(&nv) || tag(&nv) != tag(&T::null()) { ctx.oracle_fail("None does not become the NULL of T's own variant", serde_json::json!({"type": name, "got": format!("{:?}", nv)})); }
    match catch(|| <Option<T> as ValueType>::try_from(nv.clone())) {
        Some(Ok(None)) => {}
        other => ctx.oracle_fail("NULL does not extract as None", serde_json::json!({"type": name, "got": format!("{:?}", other.map(|r| r.ok()))})),
    }
    // every value of another variant, and every NULL, must fail to extract as T
    for v in pool() {
        let ok = catch(|| <T as ValueType>::try_from(v.clone()).is_ok()).unwrap_or(false);
        let expect = !is_null(&v) && tag(&v) == tag(&T::null());
        if ok != expect && !(tag(&v) == "Array") {
            ctx.oracle_fail("extraction as a different type did not fail (or the own variant failed)", serde_json::json!({"type": name, "source": format!("{:?}", v), "extracted": ok}));
        }
        // the same through Option<T>: Some only from a value of the own variant, None only from the own variant's NULL, an error otherwise
        if tag(&v) != "Array" {
            let own = tag(&v) == tag(&T::null());
            let got = catch(|| <Option<T> as ValueType>::try_from(v.clone()).map(|o| o.is_some()).ok()).flatten();
            let want = if own { Some(!is_null(&v)) } else { None };
            if got != want {
                ctx.oracle_fail("extraction as Option of a different type did not fail (or the own variant failed)", serde_json::json!({"type": format!("Option<{name}>"), "source": format!("{:?}", v), "extracted_is_some": got, "expected_is_some": want}));
            }
        }
    }
}

/// arrays: a vector is extracted only when every element is a non-NULL value of the element variant; otherwise extraction fails
/// (an error or a panic) — it never returns a shorter or different vector
fn array_checks<T>(ctx: &mut Ctx, name: &str, good: Vec<T>, ty: sea_query::ArrayType, foreign: Value) where T: Into<Value> + ValueType + Nullable + Clone + std::fmt::Debug + PartialEq + sea_query::with_array::NotU8, Vec<T>: ValueType {
    let elems: Vec<Value> = good.iter().cloned().map(Into::into).collect();
    let null = T::null();
    let variants: Vec<(&str, Vec<Value>, bool)> = vec![
        ("all elements present", elems.clone(), true),
        ("empty", vec![], true),
        ("a NULL element in the middle", { let mut v = elems.clone(); v.insert(1.min(v.len()), null.clone()); v }, false),
        ("only NULL elements", vec![null.clone(), null.clone()], false),
        ("an element of another variant", { let mut v = elems.clone(); v.insert(1.min(v.len()), foreign.clone()); v }, false),
        ("another variant first", { let mut v = elems.clone(); v.insert(0, foreign.clone()); v }, false),
    ];
    // the NULL array / the empty array of ANOTHER element type is a different type: extraction fails, also through Option
    for oty in [sea_query::ArrayType::Bool, sea_query::ArrayType::TinyInt, sea_query::ArrayType::SmallInt, sea_query::ArrayType::Int, sea_query::ArrayType::BigInt, sea_query::ArrayType::Unsigned,
        sea_query::ArrayType::Float, sea_query::ArrayType::Double, sea_query::ArrayType::String, sea_query::ArrayType::Char, sea_query::ArrayType::Bytes] {
        if oty == ty { continue; }
        for (what, src) in [("the NULL array of another element type", Value::Array(oty.clone(), None)), ("the empty array of another element type", Value::Array(oty.clone(), Some(Box::new(vec![]))))] {
            ctx.eval_only(&format!("array {name} {what} {oty:?}"), true);
            ctx.count("array.checks");
            let g1 = catch(|| <Vec<T> as ValueType>::try_from(src.clone()).ok()).flatten();
            let g2 = catch(|| <Option<Vec<T>> as ValueType>::try_from(src.clone()).ok()).flatten();
            if g1.is_some() || g2.is_some() {
                ctx.oracle_fail("extracting an array as a vector of a different element type did not fail", serde_json::json!({"type": format!("Vec<{name}>"), "case": what, "source": format!("{:?}", src), "as_vec": format!("{:?}", g1), "as_option": format!("{:?}", g2)}));
            }
        }
    }
    // the NULL array of the own element type: not a vector, and absent through Option
    {
        let src = Value::Array(ty.clone(), None);
        ctx.eval_only(&format!("array {name} own NULL"), true);
        let g1 = catch(|| <Vec<T> as ValueType>::try_from(src.clone()).ok()).flatten();
        let g2 = catch(|| <Option<Vec<T>> as ValueType>::try_from(src.clone()).ok()).flatten();
        if g1.is_some() || g2 != Some(None) { ctx.oracle_fail("the NULL array of the own element type is not extracted as absent (or is extracted as a vector)", serde_json::json!({"type": format!("Vec<{name}>"), "as_vec": format!("{:?}", g1), "as_option": format!("{:?}", g2)})); }
    }
    for (what, vs, ok_expected) in variants {
        let n = vs.len();
        let src = Value::Array(ty.clone(), Some(Box::new(vs)));
        ctx.eval_only(&format!("array {name} {what}"), true);
        ctx.count("array.checks");
        let got = catch(|| <Vec<T> as ValueType>::try_from(src.clone()).ok()).flatten();
        match (ok_expected, &got) {
            (true, Some(v)) if v.len() == n && (n == 0 || *v == good) => {}
            (false, None) => {}
            _ => ctx.oracle_fail("array extraction returned a vector although an element is NULL / of another variant (or failed on a well-formed array)",
                serde_json::json!({"type": format!("Vec<{name}>"), "case": what, "source": format!("{:?}", src), "got": format!("{:?}", got)})),
        }
        // through Option<Vec<T>> as well
        let goto = catch(|| <Option<Vec<T>> as ValueType>::try_from(src.clone()).ok()).flatten();
        match (ok_expected, &goto) {
            (true, Some(Some(v))) if v.len() == n => {}
            (false, None) => {}
            _ => ctx.oracle_fail("array extraction returned a vector although an element is NULL / of another variant (or failed on a well-formed array)",
                serde_json::json!({"type": format!("Option<Vec<{name}>>"), "case": what, "source": format!("{:?}", src), "got": format!("{:?}", goto)})),
        }
    }
}

pub fn run(ctx: &mut Ctx) {
    let thorough = ctx.tier_thorough;
    let nrand = if thorough { 200000 } else { 20000 };
    ctx.rule = format!("wiring observed for 38 Rust types x 32 variants (gen-values); then value-level round trips (TESTS, not proof): all bool / i8 / u8 / i16 / u16, boundaries + {} random i32/i64/u32/u64, all f32 special classes + random bit patterns of f32/f64 (compared by bits), char over {} scalar values, random strings / byte strings / JSON documents, chrono / time / decimal / uuid / network values; Option<T> of each; every (source variant, target type) pair for the mismatch clause; tuples of arity 1..12 incl. wrong-arity extraction; as_null / dummy_value on every variant; arrays. Non-trivial = every value; distinct by (type, value).", nrand, if thorough { "all 1,112,064" } else { "69,632 (BMP prefix, surrogates' neighbours, astral samples)" });
    let eqf = |a: &f32, b: &f32| a.to_bits() == b.to_bits();
    let eqd = |a: &f64, b: &f64| a.to_bits() == b.to_bits();
    for b in [false, true] { rt(ctx, "bool", b, &|a, b| a == b); }
    for x in i8::MIN..=i8::MAX { rt(ctx, "i8", x, &|a, b| a == b); }
    for x in u8::MIN..=u8::MAX { rt(ctx, "u8", x, &|a, b| a == b); }
    for x in i16::MIN..=i16::MAX { rt(ctx, "i16", x, &|a, b| a == b); }
    for x in u16::MIN..=u16::MAX { rt(ctx, "u16", x, &|a, b| a == b); }
    for x in [i32::MIN, -1, 0, 1, i32::MAX] { rt(ctx, "i32", x, &|a, b| a == b); }
    for x in [i64::MIN, -1, 0, 1, i64::MAX] { rt(ctx, "i64", x, &|a, b| a == b); }
    for x in [0, 1, u32::MAX] { rt(ctx, "u32", x, &|a, b| a == b); }
    for x in [0, 1, u64::MAX, 1u64 << 63] { rt(ctx, "u64", x, &|a, b| a == b); }
    for bits in [0u32, 0x8000_0000, 0x7f80_0000, 0xff80_0000, 0x7fc0_0000, 0x7fc0_0001, 0xffc0_0000, 0x7f80_0001, 1, 0x007f_ffff, 0x0080_0000, 0x7f7f_ffff] { rt(ctx, "f32", f32::from_bits(bits), &eqf); }
    for bits in [0u64, 1 << 63, 0x7ff0_0000_0000_0000, 0xfff0_0000_0000_0000, 0x7ff8_0000_0000_0000, 0x7ff8_0000_0000_0001, 0x7ff0_0000_0000_0001, 1] { rt(ctx, "f64", f64::from_bits(bits), &eqd); }
    let chars: Box<dyn Iterator<Item = u32>> = if thorough { Box::new(0..=0x10FFFF) } else { Box::new((0..0x10000).chain((0x10000..0x110000).step_by(273))) };
    for cp in chars { if let Some(c) = char::from_u32(cp) { rt(ctx, "char", c, &|a, b| a == b); } }
    for _ in 0..nrand {
        let mut r = ctx.rng.fork();
        rt(ctx, "i32", r.next() as i32, &|a, b| a == b);
        rt(ctx, "i64", r.next() as i64, &|a, b| a == b);
        rt(ctx, "u32", r.next() as u32, &|a, b| a == b);
        rt(ctx, "u64", r.next(), &|a, b| a == b);
        rt(ctx, "f32", f32::from_bits(r.next() as u32), &eqf);
        rt(ctx, "f64", f64::from_bits(r.next()), &eqd);
        if r.chance(1, 4) {
            rt(ctx, "String", random_string(&mut r, 20), &|a, b| a == b);
            // the reference and copy-on-write spellings of text and bytes convert to the same Value as the owned types, and a
            // Cow<str> comes back as the same text
            {
                use std::borrow::Cow;
                let st = random_string(&mut r, 12); let by: Vec<u8> = (0..r.below(10)).map(|_| r.below(256) as u8).collect();
                ctx.eval_only(&format!("borrowed:{st:?}"), true);
                ctx.count("type.borrowed");
                let owned: Value = st.clone().into();
                let from_ref: Value = (&st).into(); let from_str: Value = st.as_str().into();
                let from_cow_b: Value = Cow::Borrowed(st.as_str()).into(); let from_cow_o: Value = Cow::<str>::Owned(st.clone()).into();
                let from_bytes: Value = by.as_slice().into(); let owned_bytes: Value = by.clone().into();
                if from_ref != owned || from_str != owned || from_cow_b != owned || from_cow_o != owned || from_bytes != owned_bytes {
                    ctx.oracle_fail("a borrowed / copy-on-write spelling converts to a different Value than the owned type", serde_json::json!({"text": st, "bytes": by, "owned": format!("{owned:?}"), "ref_string": format!("{from_ref:?}"), "str": format!("{from_str:?}"), "cow": format!("{from_cow_b:?} {from_cow_o:?}"), "slice": format!("{from_bytes:?}")}));
                }
                match catch(|| <Cow<'_, str> as ValueType>::try_from(owned.clone()).ok()).flatten() {
                    Some(c) if c == st.as_str() => {}
                    other => ctx.oracle_fail("T -> Value -> T does not return the value", serde_json::json!({"type": "Cow<str>", "value": st, "got": format!("{other:?}")})),
                }
                for foreign in [Value::Int(Some(1)), Value::String(None), Value::Char(Some('x')), Value::Bytes(Some(Box::new(st.clone().into_bytes())))] {
                    if catch(|| <Cow<'_, str> as ValueType>::try_from(foreign.clone()).ok()).flatten().is_some() {
                        ctx.oracle_fail("extracting a value as a different type did not fail", serde_json::json!({"type": "Cow<str>", "source": format!("{foreign:?}")}));
                    }
                }
                // Value::unwrap / expect are try_from that panics
                if catch(|| owned.clone().unwrap::<String>()) != Some(st.clone()) || catch(|| owned.clone().expect::<String>("text")) != Some(st.clone()) || catch(|| owned.clone().unwrap::<i32>()).is_some() {
                    ctx.oracle_fail("Value::unwrap / expect disagree with extraction", serde_json::json!({"value": st}));
                }
            }
            let n = r.below(16); rt(ctx, "Vec<u8>", (0..n).map(|_| r.below(256) as u8).collect::<Vec<u8>>(), &|a, b| a == b);
            let j = match r.below(6) { 0 => serde_json::Value::Null, 1 => serde_json::json!(r.below(100)), 2 => serde_json::json!(random_string(&mut r, 5)), 3 => serde_json::json!([1, null, {"k": random_string(&mut r, 3)}]), 4 => serde_json::json!({"z": 1, "a": [true, null]}), _ => serde_json::json!(null) };
            rt(ctx, "Json", j, &|a, b| a == b);
            let secs = (r.below(4_000_000_000) as i64) - 2_000_000_000;
            if let Some(dt) = chrono::DateTime::from_timestamp(secs, (r.below(1_000_000) * 1000) as u32) {
                rt(ctx, "DateTime<Utc>", dt, &|a, b| a == b);
                rt(ctx, "NaiveDateTime", dt.naive_utc(), &|a, b| a == b);
                rt(ctx, "NaiveDate", dt.naive_utc().date(), &|a, b| a == b);
                rt(ctx, "NaiveTime", dt.naive_utc().time(), &|a, b| a == b);
                let off = chrono::FixedOffset::east_opt((r.below(28) as i32 - 14) * 1800).unwrap();
                rt(ctx, "DateTime<FixedOffset>", dt.with_timezone(&off), &|a, b| a == b);
                rt(ctx, "DateTime<Local>", dt.with_timezone(&chrono::Local), &|a, b| a == b);
            }
            if let Ok(odt) = time::OffsetDateTime::from_unix_timestamp(secs) {
                rt(ctx, "OffsetDateTime", odt, &|a, b| a == b);
                rt(ctx, "time::Date", odt.date(), &|a, b| a == b);
                rt(ctx, "time::Time", odt.time(), &|a, b| a == b);
                rt(ctx, "PrimitiveDateTime", time::PrimitiveDateTime::new(odt.date(), odt.time()), &|a, b| a == b);
            }
            rt(ctx, "Decimal", rust_decimal::Decimal::new(r.next() as i64, r.below(20) as u32), &|a, b| a == b);
            rt(ctx, "BigDecimal", bigdecimal::BigDecimal::new((r.next() as i64).into(), r.below(30) as i64 - 10), &|a, b| a == b);
            let u = uuid::Uuid::from_u128(((r.next() as u128) << 64) | r.next() as u128);
            rt(ctx, "Uuid", u, &|a, b| a == b);
            rt(ctx, "uuid::fmt::Braced", u.braced(), &|a, b| a == b); rt(ctx, "uuid::fmt::Hyphenated", u.hyphenated(), &|a, b| a == b);
            rt(ctx, "uuid::fmt::Simple", u.simple(), &|a, b| a == b); rt(ctx, "uuid::fmt::Urn", u.urn(), &|a, b| a == b);
            rt(ctx, "MacAddress", mac_address::MacAddress::new([r.next() as u8, r.next() as u8, r.next() as u8, r.next() as u8, r.next() as u8, r.next() as u8]), &|a, b| a == b);
            if let Ok(ip) = ipnetwork::IpNetwork::new(std::net::IpAddr::V4(std::net::Ipv4Addr::from(r.next() as u32)), r.below(33) as u8) { rt(ctx, "IpNetwork", ip, &|a, b| a == b); }
            let n = r.below(5); rt(ctx, "pgvector::Vector", pgvector::Vector::from((0..n).map(|_| f32::from_bits(r.next() as u32)).collect::<Vec<f32>>()), &|a, b| a.as_slice().iter().map(|x| x.to_bits()).eq(b.as_slice().iter().map(|x| x.to_bits())));
            let n = r.below(4); rt(ctx, "Vec<i32>", (0..n).map(|_| r.next() as i32).collect::<Vec<i32>>(), &|a, b| a == b);
            let n = r.below(4); rt(ctx, "Vec<String>", (0..n).map(|_| random_string(&mut r, 4)).collect::<Vec<String>>(), &|a, b| a == b);
        }
    }
    array_checks::<i32>(ctx, "i32", vec![1, -2, 3], sea_query::ArrayType::Int, Value::BigInt(Some(2)));
    array_checks::<i64>(ctx, "i64", vec![5, 6], sea_query::ArrayType::BigInt, Value::Int(Some(2)));
    array_checks::<String>(ctx, "String", vec!["a".to_string(), "b".to_string()], sea_query::ArrayType::String, Value::Int(Some(2)));
    array_checks::<bool>(ctx, "bool", vec![true, false], sea_query::ArrayType::Bool, Value::String(Some(Box::new("t".into()))));
    array_checks::<f64>(ctx, "f64", vec![1.5, 2.5], sea_query::ArrayType::Double, Value::Float(Some(1.0)));
    none_checks::<bool>(ctx, "bool"); none_checks::<i8>(ctx, "i8"); none_checks::<i16>(ctx, "i16"); none_checks::<i32>(ctx, "i32"); none_checks::<i64>(ctx, "i64");
    none_checks::<u8>(ctx, "u8"); none_checks::<u16>(ctx, "u16"); none_checks::<u32>(ctx, "u32"); none_checks::<u64>(ctx, "u64"); none_checks::<f32>(ctx, "f32"); none_checks::<f64>(ctx, "f64");
    none_checks::<char>(ctx, "char"); none_checks::<String>(ctx, "String"); none_checks::<Vec<u8>>(ctx, "Vec<u8>"); none_checks::<serde_json::Value>(ctx, "Json");
    none_checks::<chrono::NaiveDate>(ctx, "NaiveDate"); none_checks::<chrono::NaiveTime>(ctx, "NaiveTime"); none_checks::<chrono::NaiveDateTime>(ctx, "NaiveDateTime");
    none_checks::<chrono::DateTime<chrono::Utc>>(ctx, "DateTime<Utc>"); none_checks::<chrono::DateTime<chrono::Local>>(ctx, "DateTime<Local>"); none_checks::<chrono::DateTime<chrono::FixedOffset>>(ctx, "DateTime<FixedOffset>");
    none_checks::<time::Date>(ctx, "time::Date"); none_checks::<time::Time>(ctx, "time::Time"); none_checks::<time::PrimitiveDateTime>(ctx, "PrimitiveDateTime"); none_checks::<time::OffsetDateTime>(ctx, "OffsetDateTime");
    none_checks::<rust_decimal::Decimal>(ctx, "Decimal"); none_checks::<bigdecimal::BigDecimal>(ctx, "BigDecimal"); none_checks::<uuid::Uuid>(ctx, "Uuid");
    none_checks::<ipnetwork::IpNetwork>(ctx, "IpNetwork"); none_checks::<mac_address::MacAddress>(ctx, "MacAddress"); none_checks::<pgvector::Vector>(ctx, "pgvector::Vector");
    // as_null / dummy_value
    for v in pool() {
        ctx.eval_only(&format!("asnull {:?}", v), true);
        let a = v.as_null(); let d = v.dummy_value();
        if tag(&a) != tag(&v) || !is_null(&a) { ctx.oracle_fail("as_null does not give the NULL of the same variant", serde_json::json!({"value": format!("{:?}", v), "got": format!("{:?}", a)})); }
        if tag(&d) != tag(&v) || is_null(&d) { ctx.oracle_fail("dummy_value does not give a non-NULL value of the same variant", serde_json::json!({"value": format!("{:?}", v), "got": format!("{:?}", d)})); }
    }
    // tuples: arity and order are kept; a wrong arity fails
    struct VT(ValueTuple); impl IntoValueTuple for VT { fn into_value_tuple(self) -> ValueTuple { self.0 } }
    for n in 1..=13usize {
        let vals: Vec<Value> = (0..n).map(|i| Value::from(i as i32 * 7 + 1)).collect();
        let src = match n { 1 => ValueTuple::One(vals[0].clone()), 2 => ValueTuple::Two(vals[0].clone(), vals[1].clone()), 3 => ValueTuple::Three(vals[0].clone(), vals[1].clone(), vals[2].clone()), _ => ValueTuple::Many(vals.clone()) };
        let back: Vec<Value> = src.clone().into_iter().collect();
        ctx.eval_only(&format!("tuple {n}"), true);
        // a ValueTuple is itself an IntoValueTuple: passing it on keeps arity and order, whichever variant carries the values
        for (how, vt) in [("as built", src.clone()), ("as Many", ValueTuple::Many(vals.clone()))] {
            let again: Option<Vec<Value>> = catch(|| vt.clone().into_value_tuple().into_iter().collect());
            if again.as_ref() != Some(&vals) { ctx.oracle_fail("ValueTuple::into_value_tuple changes arity or order", serde_json::json!({"arity": n, "built": how, "got": format!("{:?}", again)})); }
            let twice: Option<Vec<Value>> = catch(|| vt.clone().into_value_tuple().into_value_tuple().into_iter().collect());
            if twice.as_ref() != Some(&vals) { ctx.oracle_fail("ValueTuple::into_value_tuple changes arity or order", serde_json::json!({"arity": n, "built": format!("{how}, passed on twice"), "got": format!("{:?}", twice)})); }
        }
        if back != vals { ctx.oracle_fail("ValueTuple::into_iter changes arity or order", serde_json::json!({"arity": n})); }
        macro_rules! ext { ($m:expr, $t:ty, $proj:expr) => { {
            let r = catch(|| { let t: $t = FromValueTuple::from_value_tuple(VT(src.clone())); $proj(t) });
            let want: Option<Vec<i32>> = if n == $m { Some((0..n).map(|i| i as i32 * 7 + 1).collect()) } else { None };
            if r != want { ctx.oracle_fail("extracting a tuple of a different arity did not fail, or the same arity changed values", serde_json::json!({"source_arity": n, "target_arity": $m, "got": format!("{:?}", r)})); }
        } } }
        ext!(1, i32, |t: i32| vec![t]);
        ext!(2, (i32, i32), |t: (i32, i32)| vec![t.0, t.1]);
        ext!(3, (i32, i32, i32), |t: (i32, i32, i32)| vec![t.0, t.1, t.2]);
        ext!(4, (i32, i32, i32, i32), |t: (i32, i32, i32, i32)| vec![t.0, t.1, t.2, t.3]);
        ext!(5, (i32, i32, i32, i32, i32), |t: (i32, i32, i32, i32, i32)| vec![t.0, t.1, t.2, t.3, t.4]);
        ext!(7, (i32, i32, i32, i32, i32, i32, i32), |t: (i32, i32, i32, i32, i32, i32, i32)| vec![t.0, t.1, t.2, t.3, t.4, t.5, t.6]);
        ext!(12, (i32, i32, i32, i32, i32, i32, i32, i32, i32, i32, i32, i32), |t: (i32, i32, i32, i32, i32, i32, i32, i32, i32, i32, i32, i32)| vec![t.0, t.1, t.2, t.3, t.4, t.5, t.6, t.7, t.8, t.9, t.10, t.11]);
    }
    // every listed arity through IntoValueTuple
    let t12 = (1i32, "b", 3u8, 4i64, 5.5f64, 'c', true, 8u16, 9i8, 10u32, 11i16, 12u64).into_value_tuple();
    let got: Vec<&'static str> = t12.into_iter().map(|v| tag(&v)).collect();
    if got != ["Int", "String", "TinyUnsigned", "BigInt", "Double", "Char", "Bool", "SmallUnsigned", "TinyInt", "Unsigned", "SmallInt", "BigUnsigned"] { ctx.oracle_fail("a 12-tuple does not keep element order / types", serde_json::json!({"got": got})); }
}
