//! The explicit reference rendering: written from the three engines' grammars, independently of
//! the crate — every operand parenthesised, every value as a literal of the dialect, every clause
//! spelled out in the dialect's grammar order, every dialect re-routing (MySQL UPDATE .. JOIN .. ON,
//! ON DUPLICATE KEY UPDATE, NULLS emulation, VALUES ROW(..); Postgres DISTINCT ON, enum casts, ..)
//! written the way the documentation of the crate and of the engine describes it.
use crate::reflex::B;
use crate::stmt::*;
use crate::*;
use sea_query::Value;

pub struct X { pub b: B, /// when collecting: the values the statement binds, in the order the dialect's grammar meets them
    pub bound: std::cell::RefCell<Option<Vec<String>>>,
    /// a template whose values cannot be told without expanding it (numbered marks, surplus / missing values) was met
    pub opaque_template: std::cell::Cell<bool> }

/// the positional marks of a template outside quoted text (`??` is a literal mark), by a scan that shares nothing with the crate's tokenizer
fn positional_marks(t: &str) -> usize {
    let cs: Vec<char> = t.chars().collect();
    let (mut i, mut n) = (0, 0);
    while i < cs.len() {
        let c = cs[i];
        if c == '\'' || c == '"' || c == '`' || c == '[' {
            let close = if c == '[' { ']' } else { c };
            i += 1; let mut esc = false;
            while i < cs.len() { let d = cs[i]; if !esc && d == close { i += 1; if c != '[' && i < cs.len() && cs[i] == close { i += 1; continue; } break; } esc = !esc && d == '\\'; i += 1; }
            continue;
        }
        if c == '?' { if i + 1 < cs.len() && cs[i + 1] == '?' { i += 2; continue; } n += 1; }
        i += 1;
    }
    n
}

pub fn render(b: B, q: &Query) -> String { X::new(b).q(q) }
/// the reference rendering together with the values a parameterised rendering has to bind, in order (tags as `stmt::value_tag`)
pub fn render_bound(b: B, q: &Query) -> (String, Vec<String>) { let (s, v, _) = render_bound_t(b, q); (s, v) }
/// .. and whether a template was met whose values this renderer cannot tell (then the list is not to be compared)
pub fn render_bound_t(b: B, q: &Query) -> (String, Vec<String>, bool) { let x = X { b, bound: std::cell::RefCell::new(Some(Vec::new())), opaque_template: std::cell::Cell::new(false) }; let s = x.q(q); let v = x.bound.borrow_mut().take().unwrap_or_default(); (s, v, x.opaque_template.get()) }
pub fn cond_sql(b: B, c: &Cond) -> String { X::new(b).cond(c) }
pub fn ex_sql(b: B, e: &Ex) -> String { X::new(b).ex(e) }

impl X {
    pub fn new(b: B) -> Self { X { b, bound: std::cell::RefCell::new(None), opaque_template: std::cell::Cell::new(false) } }
    /// a value that is bound as a parameter (not a constant written into the text)
    fn bind(&self, v: &Val) -> String { if let Some(l) = self.bound.borrow_mut().as_mut() { l.push(crate::stmt::value_tag(&v.real)); } self.lit(v) }
    fn bind_raw(&self, v: Value) { if let Some(l) = self.bound.borrow_mut().as_mut() { l.push(crate::stmt::value_tag(&v)); } }
    fn qi(&self, s: &str) -> String { if self.b == B::Mysql { format!("`{}`", s.replace('`', "``")) } else { format!("\"{}\"", s.replace('"', "\"\"")) } }
    pub fn lit(&self, v: &Val) -> String {
        match &v.v {
            Pay::Null => "NULL".into(), Pay::Bool(b) => if *b { "TRUE".into() } else { "FALSE".into() }, Pay::Int(i) => i.to_string(),
            // floats: own spelling (exponent form is a floating-point literal in all three engines), independent of the crate's
            Pay::Num(t) => match &v.real { Value::Double(Some(x)) => format!("{x:e}"), Value::Float(Some(x)) => format!("{x:e}"), _ => t.clone() },
            Pay::Str(s) => match self.b { B::Mysql => format!("'{}'", s.replace('\\', "\\\\").replace('\'', "''")), _ => format!("'{}'", s.replace('\'', "''")) },
            Pay::Bytes(b) => if self.b == B::Postgres { format!("'\\x{}'", hex(b).to_uppercase()) } else { format!("x'{}'", hex(b)) },
            Pay::Quoted(t) => format!("'{t}'"),
        }
    }
    fn op(&self, o: &Op) -> String {
        match o { Op::Custom(s) => s.to_string(), Op::Std(i) => match i { 0 => "AND", 1 => "OR", 2 => "LIKE", 3 => "NOT LIKE", 4 => "IS", 5 => "IS NOT", 6 => "IN", 7 => "NOT IN", 8 => "BETWEEN", 9 => "NOT BETWEEN",
            10 => "=", 11 => "<>", 12 => "<", 13 => ">", 14 => "<=", 15 => ">=", 16 => "+", 17 => "-", 18 => "*", 19 => "/", 20 => "%", 21 => "&", 22 => "|", 23 => "<<", 24 => ">>",
            30 => "ILIKE", 31 => "NOT ILIKE", 32 => "@@", 33 => "@>", 34 => "<@", 35 => "||", 36 => "&&", 37 => "%", 38 => "<%", 39 => "<<%", 40 => "<->", 41 => "<<->", 42 => "<<<->", 43 => "->", 44 => "->>", 45 => "~", 46 => "~*", 47 => "<->", 48 => "<#>", 49 => "<=>",
            60 => "GLOB", 61 => "MATCH", 62 => "->", 63 => "->>", _ => "?op?" }.to_string() }
    }
    fn col(&self, c: &ColRef) -> String { match c { ColRef::Col(c) => self.qi(c), ColRef::TCol(t, c) => format!("{}.{}", self.qi(t), self.qi(c)), ColRef::STCol(s, t, c) => format!("{}.{}.{}", self.qi(s), self.qi(t), self.qi(c)), ColRef::Star => "*".into(), ColRef::TStar(t) => format!("{}.*", self.qi(t)) } }
    fn fname(&self, f: &Fun) -> String {
        match f {
            Fun::Custom(n) => n.clone(),
            Fun::Pg(i) => ["TO_TSQUERY", "TO_TSVECTOR", "PHRASETO_TSQUERY", "PLAINTO_TSQUERY", "WEBSEARCH_TO_TSQUERY", "TS_RANK", "TS_RANK_CD", "STARTS_WITH", "GEN_RANDOM_UUID", "JSON_BUILD_OBJECT", "JSON_AGG", "ARRAY_AGG", "DATE_TRUNC", "ANY", "SOME", "ALL"][*i as usize].to_string(),
            Fun::Std(i) => match (i, self.b) {
                (7, B::Postgres) => "COALESCE", (7, _) => "IFNULL", (8, B::Sqlite) => "MAX", (8, _) => "GREATEST", (9, B::Sqlite) => "MIN", (9, _) => "LEAST",
                (10, B::Sqlite) => "LENGTH", (10, _) => "CHAR_LENGTH", (16, B::Mysql) => "RAND", (16, _) => "RANDOM",
                _ => ["MAX", "MIN", "SUM", "AVG", "ABS", "COALESCE", "COUNT", "", "", "", "", "CAST", "LOWER", "UPPER", "BIT_AND", "BIT_OR", "", "ROUND", "MD5"][*i as usize],
            }.to_string(),
        }
    }
    fn exprs(&self, es: &[Ex]) -> String { es.iter().map(|e| self.ex(e)).collect::<Vec<_>>().join(", ") }
    pub fn ex(&self, e: &Ex) -> String {
        match e {
            Ex::Col(c) => self.col(c), Ex::Val(v) => self.bind(v), Ex::Const(v) => self.lit(v),
            Ex::Tuple(es) => format!("({})", self.exprs(es)),
            Ex::Vals(vs) => format!("({})", vs.iter().map(|v| self.bind(v)).collect::<Vec<_>>().join(", ")),
            Ex::Not(x) => format!("(NOT {})", self.ex(x)),
            Ex::Func(Fun::Std(11), _, a) => match &a[0] { Ex::Bin(x, _, t) => format!("CAST({} AS {}{})", self.ex(x), if let Ex::Cust(t) = &**t { t.clone() } else { "?".into() }, a[1..].iter().map(|x| format!(", {}", self.ex(x))).collect::<String>()), _ => "?cast?".into() },
            Ex::Func(f, d, a) => format!("{}({}{})", self.fname(f), if *d { "DISTINCT " } else { "" }, self.exprs(a)),
            Ex::Bin(l, o, r) => match (o, &**r) {
                (Op::Std(6), Ex::Tuple(t)) if t.is_empty() => { self.bind_raw(Value::Int(Some(1))); self.bind_raw(Value::Int(Some(2))); "(1 = 2)".into() }
                (Op::Std(7), Ex::Tuple(t)) if t.is_empty() => { self.bind_raw(Value::Int(Some(1))); self.bind_raw(Value::Int(Some(1))); "(1 = 1)".into() }
                (Op::Std(8 | 9), Ex::Bin(lo, Op::Std(0), hi)) => format!("({} {} {} AND {})", self.ex(l), self.op(o), self.ex(lo), self.ex(hi)),
                (Op::Std(2 | 3 | 30 | 31), Ex::Bin(p, Op::Std(26), c)) => format!("({} {} {} ESCAPE {})", self.ex(l), self.op(o), self.ex(p), self.ex(c)),
                _ => format!("({} {} {})", self.ex(l), self.op(o), self.ex(r)),
            },
            Ex::Subq(o, q) => match o { Some(0) => format!("(EXISTS ({}))", self.q(q)), Some(1) => format!("ANY ({})", self.q(q)), Some(2) => format!("SOME ({})", self.q(q)), Some(_) => format!("ALL ({})", self.q(q)), None => format!("({})", self.q(q)) },
            Ex::Cust(s) => s.clone(),
            // a template on a positional backend with exactly one supplied expression per mark: the i-th mark takes the i-th
            // expression, so its values are bound in that order (the text is not expanded here; only the bound values are told)
            Ex::CustW(t, args) => {
                if self.b != B::Postgres && positional_marks(t) == args.len() { for a in args { let _ = self.ex(a); } } else { self.opaque_template.set(true); }
                t.clone()
            }
            Ex::Kw(k) => match k { Kw::Null => "NULL".into(), Kw::CurrentDate => "CURRENT_DATE".into(), Kw::CurrentTime => "CURRENT_TIME".into(), Kw::CurrentTimestamp => "CURRENT_TIMESTAMP".into(), Kw::Custom(s) => s.clone() },
            // an enum cast exists on Postgres only, as CAST(expr AS "type") (array types keep their [] outside the quotes)
            Ex::Enum(t, x) => if self.b == B::Postgres { match t.strip_suffix("[]") { Some(base) => format!("CAST({} AS {}[])", self.ex(x), self.qi(base)), None => format!("CAST({} AS {})", self.ex(x), self.qi(t)) } } else { self.ex(x) },
            Ex::Case(ws, el) => format!("(CASE{}{} END)", ws.iter().map(|(c, x)| format!(" WHEN {} THEN {}", self.cond(c), self.ex(x))).collect::<String>(), el.as_ref().map(|x| format!(" ELSE {}", self.ex(x))).unwrap_or_default()),
        }
    }
    pub fn cond(&self, c: &Cond) -> String {
        let items: Vec<String> = c.items.iter().map(|i| match i { Item::C(c) => self.cond(c), Item::E(e) => format!("({})", self.ex(e)) }).collect();
        let body = if items.is_empty() { if c.any { "(FALSE)".to_string() } else { "(TRUE)".to_string() } } else { format!("({})", items.join(if c.any { " OR " } else { " AND " })) };
        if c.neg { format!("(NOT {body})") } else { body }
    }
    fn holder(&self, kw: &str, h: &Holder) -> String {
        match h { Holder::Empty => String::new(), Holder::Cond(c) => format!(" {kw} {}", self.cond(c)),
            // a chain reads the way SQL reads `a AND b OR c`; every member keeps its own parentheses
            Holder::Chain(l) => format!(" {kw} {}", l.iter().enumerate().map(|(i, (or, e))| format!("{}({})", if i == 0 { "" } else if *or { " OR " } else { " AND " }, self.ex(e))).collect::<String>()) }
    }
    fn order(&self, o: &OrderItem) -> String {
        let key = match &o.kind {
            OrderKind::Asc => format!("{} ASC", self.ex(&o.e)), OrderKind::Desc => format!("{} DESC", self.ex(&o.e)),
            OrderKind::Field(vs) => format!("(CASE{} ELSE {} END)", vs.iter().enumerate().map(|(i, v)| format!(" WHEN ({} = {}) THEN {i}", self.ex(&o.e), self.lit(v))).collect::<String>(), vs.len()),
        };
        match (self.b, o.nulls_first) {
            (_, None) => key,
            // MySQL has no NULLS FIRST / LAST: the documented emulation is a leading `expr IS NULL` key
            (B::Mysql, Some(first)) => format!("({} IS NULL) {}, {key}", self.ex(&o.e), if first { "DESC" } else { "ASC" }),
            (_, Some(true)) => format!("{key} NULLS FIRST"), (_, Some(false)) => format!("{key} NULLS LAST"),
        }
    }
    fn orders(&self, kw: &str, os: &[OrderItem]) -> String { if os.is_empty() { String::new() } else { format!(" {kw} {}", os.iter().map(|o| self.order(o)).collect::<Vec<_>>().join(", ")) } }
    fn bound(&self, b: &Bound) -> String { match b { Bound::UP => "UNBOUNDED PRECEDING".into(), Bound::P(n) => { self.bind_raw(Value::Unsigned(Some(*n))); format!("{n} PRECEDING") }, Bound::CR => "CURRENT ROW".into(), Bound::F(n) => { self.bind_raw(Value::Unsigned(Some(*n))); format!("{n} FOLLOWING") }, Bound::UF => "UNBOUNDED FOLLOWING".into() } }
    fn window(&self, w: &Window) -> String {
        let mut parts = Vec::new();
        if !w.partition.is_empty() { parts.push(format!("PARTITION BY {}", self.exprs(&w.partition))); }
        if !w.orders.is_empty() { parts.push(self.orders("ORDER BY", &w.orders).trim_start().to_string()); }
        if let Some(f) = &w.frame { parts.push(format!("{} {}", if f.rows { "ROWS" } else { "RANGE" }, match &f.stop { Some(e) => format!("BETWEEN {} AND {}", self.bound(&f.start), self.bound(e)), None => self.bound(&f.start) })); }
        format!("({})", parts.join(" "))
    }
    fn tname(&self, n: &TName) -> String { format!("{}{}", n.parts.iter().map(|p| self.qi(p)).collect::<Vec<_>>().join("."), n.alias.as_ref().map(|a| format!(" AS {}", self.qi(a))).unwrap_or_default()) }
    fn tref(&self, t: &TRef) -> String {
        match t {
            TRef::Named(n) => self.tname(n),
            TRef::Sub(s, a) => format!("({}) AS {}", self.sel(s), self.qi(a)),
            TRef::Vals(rows, a) => format!("(VALUES {}) AS {}", rows.iter().map(|r| format!("{}({})", if self.b == B::Mysql { "ROW" } else { "" }, r.iter().map(|v| self.bind(v)).collect::<Vec<_>>().join(", "))).collect::<Vec<_>>().join(", "), self.qi(a)),
            TRef::Func(f, d, args, a) => format!("{}({}{}) AS {}", self.fname(f), if *d { "DISTINCT " } else { "" }, self.exprs(args), self.qi(a)),
        }
    }
    fn with(&self, w: &WithC) -> String {
        let mut o = format!("WITH {}{} ", if w.recursive { "RECURSIVE " } else { "" }, w.ctes.iter().map(|c| format!("{}{} AS {}({})", self.qi(&c.name), if c.cols.is_empty() { String::new() } else { format!(" ({})", c.cols.iter().map(|x| self.qi(x)).collect::<Vec<_>>().join(", ")) },
            if self.b == B::Mysql { "" } else { match c.mat { Some(true) => "MATERIALIZED ", Some(false) => "NOT MATERIALIZED ", None => "" } }, self.q(&c.q))).collect::<Vec<_>>().join(", "));
        if w.recursive && self.b == B::Postgres {
            if let Some((breadth, e, a)) = &w.search { o += &format!("SEARCH {} FIRST BY {} SET {} ", if *breadth { "BREADTH" } else { "DEPTH" }, self.ex(e), self.qi(a)); }
            if let Some((e, s, u)) = &w.cycle { o += &format!("CYCLE {} SET {} USING {} ", self.ex(e), self.qi(s), self.qi(u)); }
        }
        o
    }
    pub fn sel(&self, s: &Select) -> String {
        let mut o = String::new();
        if let Some(w) = &s.with { o += &self.with(w); }
        o += "SELECT ";
        match &s.distinct { Some(Distinct::Distinct) => o += "DISTINCT ", Some(Distinct::All) => o += "ALL ", Some(Distinct::Row) if self.b == B::Mysql => o += "DISTINCTROW ",
            Some(Distinct::On(cs)) if self.b == B::Postgres => o += &format!("DISTINCT ON ({}) ", cs.iter().map(|c| self.col(c)).collect::<Vec<_>>().join(", ")), _ => {} }
        o += &s.selects.iter().map(|it| format!("{}{}{}", self.ex(&it.e), match &it.win { WinSel::None => String::new(), WinSel::Name(n) => format!(" OVER {}", self.qi(n)), WinSel::Query(w) => format!(" OVER {}", self.window(w)) }, it.alias.as_ref().map(|a| format!(" AS {}", self.qi(a))).unwrap_or_default())).collect::<Vec<_>>().join(", ");
        if !s.from.is_empty() {
            o += " FROM "; o += &s.from.iter().map(|t| self.tref(t)).collect::<Vec<_>>().join(", ");
            if self.b == B::Mysql { for h in &s.hints { o += &format!(" {} INDEX {}({})", ["USE", "IGNORE", "FORCE"][h.ty as usize], ["FOR JOIN ", "FOR ORDER BY ", "FOR GROUP BY ", ""][h.scope as usize], self.qi(&h.index)); } }
            if self.b == B::Postgres { if let Some(sa) = &s.sample { o += &format!(" TABLESAMPLE {} ({}){}", if sa.method == 0 { "BERNOULLI" } else { "SYSTEM" }, sa.pct, sa.rep.map(|r| format!(" REPEATABLE ({r})")).unwrap_or_default()); } }
        }
        for j in &s.joins { o += &format!(" {} {}{}{}", ["JOIN", "CROSS JOIN", "INNER JOIN", "LEFT JOIN", "RIGHT JOIN", "FULL OUTER JOIN"][j.ty as usize], if j.lateral { "LATERAL " } else { "" }, self.tref(&j.t), self.holder("ON", &j.on)); }
        o += &self.holder("WHERE", &s.wher);
        if !s.groups.is_empty() { o += &format!(" GROUP BY {}", self.exprs(&s.groups)); }
        o += &self.holder("HAVING", &s.having);
        if let Some((n, w)) = &s.window { o += &format!(" WINDOW {} AS {}", self.qi(n), self.window(w)); }
        for (t, u) in &s.unions { o += [" INTERSECT ", " UNION ", " EXCEPT ", " UNION ALL "][*t as usize]; if self.b == B::Sqlite { o += &self.sel(u); } else { o += &format!("({})", self.sel(u)); } }
        o += &self.orders("ORDER BY", &s.orders);
        if let Some(n) = s.limit { self.bind_raw(Value::BigUnsigned(Some(n))); o += &format!(" LIMIT {n}"); }
        if let Some(n) = s.offset { self.bind_raw(Value::BigUnsigned(Some(n))); o += &format!(" OFFSET {n}"); }
        if let Some(l) = &s.lock { if self.b != B::Sqlite {
            o += &format!(" FOR {}", ["UPDATE", "NO KEY UPDATE", "SHARE", "KEY SHARE"][l.ty as usize]);
            if !l.tables.is_empty() { o += &format!(" OF {}", l.tables.iter().map(|t| self.tname(t)).collect::<Vec<_>>().join(", ")); }
            match l.behavior { Some(0) => o += " NOWAIT", Some(_) => o += " SKIP LOCKED", None => {} }
        } }
        o
    }
    fn ret(&self, r: &Ret) -> String {
        if self.b == B::Mysql { return String::new(); }
        match r { Ret::None => String::new(), Ret::All => " RETURNING *".into(), Ret::Cols(cs) => format!(" RETURNING {}", cs.iter().map(|c| self.col(c)).collect::<Vec<_>>().join(", ")), Ret::Exprs(es) => format!(" RETURNING {}", self.exprs(es)) }
    }
    pub fn q(&self, q: &Query) -> String {
        match q {
            Query::Sel(s) => self.sel(s),
            Query::With(w, q) => format!("{}{}", self.with(w), self.q(q)),
            Query::Ins(i) => {
                let mut o = String::new();
                if let Some(w) = &i.with { o += &self.with(w); }
                o += if i.replace { "REPLACE" } else { "INSERT" };
                if let Some(t) = &i.table { o += &format!(" INTO {}", self.tref(t)); }
                if i.default_values.is_some() && i.columns.is_empty() && matches!(i.source, Source::None) {
                    let n = i.default_values.unwrap() as usize;
                    o += &match self.b { B::Sqlite => " DEFAULT VALUES".to_string(), B::Mysql => format!(" VALUES {}", vec!["()"; n].join(", ")), B::Postgres => format!(" VALUES {}", vec!["(DEFAULT)"; n].join(", ")) };
                } else {
                    o += &format!(" ({})", i.columns.iter().map(|c| self.qi(c)).collect::<Vec<_>>().join(", "));
                    match &i.source { Source::None => {} Source::Values(rows) => o += &format!(" VALUES {}", rows.iter().map(|r| format!("({})", self.exprs(r))).collect::<Vec<_>>().join(", ")), Source::Select(s) => { o += " "; o += &self.sel(s); } }
                }
                if let Some(oc) = &i.on_conflict {
                    if self.b == B::Mysql {
                        // no conflict target, no WHERE; DO NOTHING is spelled as a no-op assignment of the key columns
                        match &oc.action {
                            Action::None => o += " ON DUPLICATE KEY",
                            // without key columns there is nothing to assign: MySQL spells that INSERT IGNORE, which has no place after VALUES
                            Action::Nothing(pk) if pk.is_empty() => {}
                            Action::Nothing(pk) => o += &format!(" ON DUPLICATE KEY UPDATE {}", pk.iter().map(|c| format!("{} = {}", self.qi(c), self.qi(c))).collect::<Vec<_>>().join(", ")),
                            Action::Update(us) => o += &format!(" ON DUPLICATE KEY UPDATE {}", us.iter().map(|u| match u { Upd::Col(c) => format!("{} = VALUES({})", self.qi(c), self.qi(c)), Upd::Expr(c, e) => format!("{} = {}", self.qi(c), self.ex(e)) }).collect::<Vec<_>>().join(", ")),
                        }
                    } else {
                        o += " ON CONFLICT";
                        if !oc.targets.is_empty() { o += &format!(" ({})", oc.targets.iter().map(|t| match t { Target::Col(c) => self.qi(c), Target::Expr(e) => self.ex(e) }).collect::<Vec<_>>().join(", ")); }
                        o += &self.holder("WHERE", &oc.target_where);
                        match &oc.action { Action::None => {} Action::Nothing(_) => o += " DO NOTHING",
                            Action::Update(us) => o += &format!(" DO UPDATE SET {}", us.iter().map(|u| match u { Upd::Col(c) => format!("{} = \"excluded\".{}", self.qi(c), self.qi(c)), Upd::Expr(c, e) => format!("{} = {}", self.qi(c), self.ex(e)) }).collect::<Vec<_>>().join(", ")) }
                        o += &self.holder("WHERE", &oc.action_where);
                    }
                }
                o + &self.ret(&i.returning)
            }
            Query::Upd(u) => {
                let mut o = String::new();
                if let Some(w) = &u.with { o += &self.with(w); }
                o += "UPDATE "; if let Some(t) = &u.table { o += &self.tref(t); }
                let mysql_join = self.b == B::Mysql && !u.from.is_empty();
                if mysql_join {
                    // MySQL has no UPDATE .. FROM: the other tables are joined and the condition becomes the join condition
                    for (k, t) in u.from.iter().enumerate() { o += &format!(" JOIN {}", self.tref(t)); if k + 1 == u.from.len() { o += &self.holder("ON", &u.wher); } }
                }
                let qual = if mysql_join { match &u.table { Some(TRef::Named(TName { parts, alias: None })) if parts.len() == 1 => Some(parts[0].clone()), _ => None } } else { None };
                o += &format!(" SET {}", u.sets.iter().map(|(c, e)| format!("{}{} = {}", qual.as_ref().map(|t| format!("{}.", self.qi(t))).unwrap_or_default(), self.qi(c), self.ex(e))).collect::<Vec<_>>().join(", "));
                if !mysql_join && !u.from.is_empty() { o += &format!(" FROM {}", u.from.iter().map(|t| self.tref(t)).collect::<Vec<_>>().join(", ")); }
                if !mysql_join { o += &self.holder("WHERE", &u.wher); }
                // SQLite: RETURNING precedes ORDER BY / LIMIT
                o += &self.ret(&u.returning); o += &self.orders("ORDER BY", &u.orders);
                if let Some(n) = u.limit { self.bind_raw(Value::BigUnsigned(Some(n))); o += &format!(" LIMIT {n}"); }
                o
            }
            Query::Del(d) => {
                let mut o = String::new();
                if let Some(w) = &d.with { o += &self.with(w); }
                o += "DELETE"; if let Some(t) = &d.table { o += &format!(" FROM {}", self.tref(t)); }
                o += &self.holder("WHERE", &d.wher); o += &self.ret(&d.returning); o += &self.orders("ORDER BY", &d.orders);
                if let Some(n) = d.limit { self.bind_raw(Value::BigUnsigned(Some(n))); o += &format!(" LIMIT {n}"); }
                o
            }
        }
    }
}
