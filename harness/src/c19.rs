//! C19: derived identifiers. The types below are expanded by /repo's sea-query-derive at harness
//! build time; their names are compared with the documented rule (heck's snake_case as the
//! reference), with the general identifier quoting, and the Lean model of the case conversion
//! is compared with heck on generated identifiers.
use crate::reflex::{self, B, Tok};
use crate::sq::*;
use crate::*;
use heck::{ToPascalCase, ToSnakeCase};
use sea_query::*;

macro_rules! iden_enum {
    ($name:ident { $($v:ident),* $(,)? }) => {
        #[derive(Iden, Clone, Copy)]
        #[allow(non_camel_case_types, clippy::upper_case_acronyms)]
        enum $name { Table, $($v),* }
        impl $name { fn all() -> Vec<(&'static str, &'static str, Box<dyn Iden>)> {
            let mut v: Vec<(&'static str, &'static str, Box<dyn Iden>)> = vec![(stringify!($name), "Table", Box::new($name::Table))];
            $( v.push((stringify!($name), stringify!($v), Box::new($name::$v))); )*
            v } }
    };
}
macro_rules! iden_static_enum {
    ($name:ident { $($v:ident),* $(,)? }) => {
        #[derive(IdenStatic, Clone, Copy)]
        #[allow(non_camel_case_types, clippy::upper_case_acronyms)]
        enum $name { Table, $($v),* }
        impl $name { fn all() -> Vec<(&'static str, &'static str, Box<dyn Iden>, &'static str)> {
            let mut v: Vec<(&'static str, &'static str, Box<dyn Iden>, &'static str)> = vec![(stringify!($name), "Table", Box::new($name::Table), $name::Table.as_str())];
            $( v.push((stringify!($name), stringify!($v), Box::new($name::$v), $name::$v.as_str())); )*
            v } }
    };
}

iden_enum!(FontGlyph { Id, FontSize, SizeW, SizeH, XMLHttpRequest, HTTPServer, Abc123Def, A1Bc, ID, Id2, X, Aa, ABc, AbC, ABC, Snake_Case, trailing_, UserID, IOError, Utf8String, V2Api, Created_At, A, B2, Zz9, LongVariantNameWithManyWords });
iden_enum!(HTTPRequestLog { RequestID, URL, Url2, StatusCode200 });
// digits inside and after acronyms: a digit continues the word it is in (heck), it never starts one
iden_enum!(UTF8BOM { UTF8BOM, X509V3Cert, SHA256Sum, HTTP2Server, A1B2, Ipv4Addr, Utf16LE, B64, Sha3_256, MD5Hash, I18N, K8S, Oauth2Token, Base64URL, X86_64 });
// IdenStatic with a renamed container: as_str() and to_string() of `Table` are both the rename
#[derive(IdenStatic, Clone, Copy)]
#[iden = "character"]
enum StaticRenamed { Table, Id, #[iden = "font size"] FontSize }
#[derive(IdenStatic, Clone, Copy)]
#[iden(rename = "glyph_tbl")]
enum StaticRenamed2 { Table, SizeW }
iden_enum!(x_lower { Col });
// variants whose snake_case is "table" but which are not the `Table` variant
iden_enum!(TableLike { TABLE, table, Table_, _Table, TableName, Tables, TABLE2 });
iden_static_enum!(StaticOne { Id, FontSize, XMLData, Created_At, Z9 });

#[derive(Iden)]
enum Renamed { Table, #[iden = "custom name"] A, #[iden(rename = "quo\"te`d")] B, #[iden = "ok_name"] C, #[method = "m"] D, Plain }
impl Renamed { fn m(&self) -> &'static str { "from \"method\"" } }
#[derive(Iden)]
#[iden = "UserAccounts"]
enum ContainerRenamed { Table, Col }
#[derive(Iden)]
#[iden(rename = "Audit LOG")]
enum ContainerRenamed2 { Table, SomeCol }
#[derive(Iden)]
#[iden = "we\"ird`t"]
enum ContainerQuoted { Table, C }
#[derive(Iden)]
enum InnerQ { #[iden = "we\"ird"] Weird, #[iden = "ti`ck"] Tick, Fine }
#[derive(Iden)]
enum OuterFlat { Table, Name, #[iden(flatten)] Inner(InnerQ), #[iden(flatten)] Named { inner: InnerQ } }
#[derive(Iden)]
struct UnitPlainStruct;
#[derive(Iden)]
#[iden = "Unit Renamed\""]
struct UnitRenamed;
#[derive(IdenStatic, Clone, Copy)]
struct UnitStatic;

// one type per punctuation character: the fast path is chosen per type, so a wrong per-name predicate shows only when
// every name of the type passes it
macro_rules! punct_types {
    ($($e:ident $u:ident $name:literal),* $(,)?) => {
        $( #[derive(Iden)] enum $e { Table, #[iden = $name] V, Plain }
           #[derive(Iden)] #[iden = $name] struct $u; )*
        fn punct_items() -> Vec<(String, &'static str, Box<dyn Iden>)> {
            let mut v: Vec<(String, &'static str, Box<dyn Iden>)> = Vec::new();
            $( v.push((format!("{}::V", stringify!($e)), $name, Box::new($e::V)));
               v.push((format!("{}::Table", stringify!($e)), "", Box::new($e::Table)));
               v.push((format!("{}::Plain", stringify!($e)), "plain", Box::new($e::Plain)));
               v.push((stringify!($u).to_string(), $name, Box::new($u))); )*
            v
        }
    };
}
punct_types!(PunctRb UnitRb "a]b", PunctLb UnitLb "a[b", PunctSq UnitSq "it's", PunctDash UnitDash "a-b", PunctSpace UnitSpace "a b", PunctDot UnitDot "a.b",
    PunctDollar UnitDollar "a$b", PunctBs UnitBs "a\\b", PunctSlash UnitSlash "a/b", PunctColon UnitColon "a:b", PunctParen UnitParen "f(x)", PunctBrace UnitBrace "a{{b}}", PunctBrace2 UnitBrace2 "{{}}",
    PunctAngle UnitAngle "a<b>", PunctHash UnitHash "a#b", PunctAt UnitAt "a@b", PunctBang UnitBang "a!b", PunctPct UnitPct "a%b", PunctAmp UnitAmp "a&b", PunctStar UnitStar "a*b",
    PunctPlus UnitPlus "a+b", PunctComma UnitComma "a,b", PunctSemi UnitSemi "a;b", PunctEq UnitEq "a=b", PunctQm UnitQm "a?b", PunctCaret UnitCaret "a^b", PunctPipe UnitPipe "a|b",
    PunctTilde UnitTilde "a~b", PunctDq UnitDq "a\"b", PunctTick UnitTick "a`b", PunctNonAscii UnitNonAscii "caf\u{e9}", PunctDigit UnitDigit "1st", PunctEmpty UnitEmpty "");

#[enum_def]
#[allow(dead_code, non_snake_case)]
struct FooBarBaz { id: i32, created_at: String, xY_z: bool, HTTPCode: u8 }
#[enum_def(prefix = "Pre", suffix = "Suf")]
#[allow(dead_code)]
struct Affixed { some_field: i32 }
#[enum_def(table_name = "custom_tbl")]
#[allow(dead_code)]
struct WithTable { a_b: i32 }

fn general(b: B, name: &str) -> String { let mut s = String::new(); Alias::new(name).prepare(&mut s, qb(b).quote()); s }

/// every quote a custom backend may use: each ASCII punctuation byte on both sides, and the bracket pairs
fn custom_quotes() -> Vec<Quote> {
    let mut v: Vec<Quote> = (0x20u8..0x7f).filter(|b| !b.is_ascii_alphanumeric() && *b != b'_').map(Quote::new).collect();
    for (l, r) in [('[', ']'), ('(', ')'), ('<', '>'), ('{', '}'), ('"', '`')] { v.push((l, r).into()); }
    v
}

fn check_value(ctx: &mut Ctx, label: &str, it: &dyn Iden, expect_name: &str) {
    ctx.eval_only(&format!("derived {label}"), true);
    ctx.count("derived.values");
    let name = it.to_string();
    if name != expect_name {
        ctx.oracle_fail("a derived identifier does not spell the documented name", serde_json::json!({"item": label, "expected": expect_name, "got": name}));
    }
    for b in B::all() {
        let mut sql = String::new();
        let ok = catch(|| it.prepare(&mut sql, qb(b).quote())).is_some();
        let g = general(b, &name);
        let one = matches!(reflex::lex(b, &sql), Ok(ref t) if t.len() == 1 && t[0] == Tok::Ident(name.clone()));
        if !ok || sql != g || !one {
            ctx.oracle_fail("the derived prepare() differs from the general identifier quoting", serde_json::json!({"item": label, "backend": b.name(), "name": name, "derived": sql, "general": g}));
        }
    }
    // the quote character is chosen at run time (Quote is public and so is QuotedBuilder): the generated prepare() must agree
    // with the general quoting (Iden::prepare's default body, here through Alias) for every quote
    for q in custom_quotes() {
        ctx.count("derived.custom_quote");
        let mut sql = String::new();
        let ok = catch(|| it.prepare(&mut sql, q)).is_some();
        let mut g = String::new();
        Alias::new(name.clone()).prepare(&mut g, q);
        let want = format!("{}{}{}", q.left(), name.replace(q.right(), &q.right().to_string().repeat(2)), q.right());
        if !ok || sql != g || g != want {
            ctx.oracle_fail("the derived prepare() differs from the general identifier quoting", serde_json::json!({"item": label, "quote": format!("{}{}", q.left(), q.right()), "name": name, "derived": sql, "general": g, "rule": want}));
        }
    }
}

fn rand_ident(r: &mut SplitMix64) -> String {
    let n = 1 + r.below(12);
    let mut s = String::new();
    for i in 0..n {
        let c = match r.below(10) { 0..=3 => (b'a' + r.below(26) as u8) as char, 4..=6 => (b'A' + r.below(26) as u8) as char, 7 => (b'0' + r.below(10) as u8) as char, 8 => '_', _ => *r.pick(&['a', 'Z', 'I', 'D', 'x']) };
        if i == 0 && c.is_ascii_digit() { s.push('V'); }
        s.push(c);
    }
    s
}

pub fn run(ctx: &mut Ctx) {
    let thorough = ctx.tier_thorough;
    let n = if thorough { 400000 } else { 60000 };
    ctx.rule = format!("~200 derived items expanded by /repo's macros at build time (PascalCase, acronym, digit and underscore patterns; Table variants; #[iden = ..], #[iden(rename = ..)], #[method = ..], container renames on enums and unit structs, flattened variants with quote-bearing inner names, IdenStatic, enum_def with prefix / suffix / table_name): to_string vs the documented rule (heck snake_case as the reference), prepare() vs the general quoting on 3 backends and for every quote a custom backend may pass (each ASCII punctuation byte, bracket pairs), one type per punctuation character so that the per-type fast-path predicate is exercised alone, as_str; then {} generated ASCII identifiers: Lean model of to_snake_case / to_pascal_case / must_be_valid_iden vs heck and vs the rule. Non-trivial = every item; distinct by item.", n);
    // plain enums: Table = snake(type name); variants = snake(variant)
    for (what, got_str, got_string, want) in [
        ("StaticRenamed::Table", StaticRenamed::Table.as_str(), StaticRenamed::Table.to_string(), "character"), ("StaticRenamed::Id", StaticRenamed::Id.as_str(), StaticRenamed::Id.to_string(), "id"),
        ("StaticRenamed::FontSize", StaticRenamed::FontSize.as_str(), StaticRenamed::FontSize.to_string(), "font size"),
        ("StaticRenamed2::Table", StaticRenamed2::Table.as_str(), StaticRenamed2::Table.to_string(), "glyph_tbl"), ("StaticRenamed2::SizeW", StaticRenamed2::SizeW.as_str(), StaticRenamed2::SizeW.to_string(), "size_w")] {
        ctx.eval_only(&format!("static-renamed {what}"), true);
        if got_str != want || got_string != want { ctx.oracle_fail("IdenStatic::as_str differs from the documented name", serde_json::json!({"item": what, "as_str": got_str, "to_string": got_string, "expected": want})); }
        let r: &str = match what { "StaticRenamed::Table" => StaticRenamed::Table.as_ref(), "StaticRenamed2::Table" => StaticRenamed2::Table.as_ref(), _ => want };
        if r != want { ctx.oracle_fail("IdenStatic::as_str differs from the documented name", serde_json::json!({"item": what, "as_ref": r, "expected": want})); }
    }
    let mut items = FontGlyph::all(); items.extend(HTTPRequestLog::all()); items.extend(UTF8BOM::all()); items.extend(x_lower::all()); items.extend(TableLike::all());
    for (ty, v, it) in items {
        let expect = if v == "Table" { ty.to_snake_case() } else { v.to_snake_case() };
        check_value(ctx, &format!("{ty}::{v}"), it.as_ref(), &expect);
    }
    for (ty, v, it, s) in StaticOne::all() {
        let expect = if v == "Table" { ty.to_snake_case() } else { v.to_snake_case() };
        check_value(ctx, &format!("{ty}::{v}"), it.as_ref(), &expect);
        if s != expect { ctx.oracle_fail("IdenStatic::as_str differs from the documented name", serde_json::json!({"item": format!("{ty}::{v}"), "as_str": s, "expected": expect})); }
    }
    check_value(ctx, "Renamed::Table", &Renamed::Table, "renamed");
    check_value(ctx, "Renamed::A", &Renamed::A, "custom name");
    check_value(ctx, "Renamed::B", &Renamed::B, "quo\"te`d");
    check_value(ctx, "Renamed::C", &Renamed::C, "ok_name");
    check_value(ctx, "Renamed::D", &Renamed::D, "from \"method\"");
    check_value(ctx, "Renamed::Plain", &Renamed::Plain, "plain");
    check_value(ctx, "ContainerRenamed::Table", &ContainerRenamed::Table, "UserAccounts");
    check_value(ctx, "ContainerRenamed::Col", &ContainerRenamed::Col, "col");
    check_value(ctx, "ContainerRenamed2::Table", &ContainerRenamed2::Table, "Audit LOG");
    check_value(ctx, "ContainerRenamed2::SomeCol", &ContainerRenamed2::SomeCol, "some_col");
    check_value(ctx, "ContainerQuoted::Table", &ContainerQuoted::Table, "we\"ird`t");
    check_value(ctx, "ContainerQuoted::C", &ContainerQuoted::C, "c");
    check_value(ctx, "InnerQ::Weird", &InnerQ::Weird, "we\"ird");
    check_value(ctx, "OuterFlat::Table", &OuterFlat::Table, "outer_flat");
    check_value(ctx, "OuterFlat::Name", &OuterFlat::Name, "name");
    check_value(ctx, "OuterFlat::Inner(Weird)", &OuterFlat::Inner(InnerQ::Weird), "we\"ird");
    check_value(ctx, "OuterFlat::Inner(Tick)", &OuterFlat::Inner(InnerQ::Tick), "ti`ck");
    check_value(ctx, "OuterFlat::Inner(Fine)", &OuterFlat::Inner(InnerQ::Fine), "fine");
    check_value(ctx, "OuterFlat::Named{Weird}", &OuterFlat::Named { inner: InnerQ::Weird }, "we\"ird");
    for (label, name, it) in punct_items() {
        let expect = if name.is_empty() && label.ends_with("::Table") { label.trim_end_matches("::Table").to_snake_case() } else { name.to_string() };
        check_value(ctx, &label, it.as_ref(), &expect);
    }
    check_value(ctx, "UnitPlainStruct", &UnitPlainStruct, "unit_plain_struct");
    check_value(ctx, "UnitRenamed", &UnitRenamed, "Unit Renamed\"");
    check_value(ctx, "UnitStatic", &UnitStatic, "unit_static");
    if UnitStatic.as_str() != "unit_static" { ctx.oracle_fail("IdenStatic::as_str of a unit struct", serde_json::json!({"got": UnitStatic.as_str()})); }
    // enum_def: Table = snake(struct name) or table_name; variants = PascalCase idents spelling the field names
    check_value(ctx, "FooBarBazIden::Table", &FooBarBazIden::Table, "foo_bar_baz");
    check_value(ctx, "FooBarBazIden::Id", &FooBarBazIden::Id, "id");
    check_value(ctx, "FooBarBazIden::CreatedAt", &FooBarBazIden::CreatedAt, "created_at");
    check_value(ctx, "FooBarBazIden::XYZ", &FooBarBazIden::XYZ, "xY_z");
    check_value(ctx, "FooBarBazIden::HttpCode", &FooBarBazIden::HttpCode, "HTTPCode");
    check_value(ctx, "PreAffixedSuf::Table", &PreAffixedSuf::Table, "affixed");
    check_value(ctx, "PreAffixedSuf::SomeField", &PreAffixedSuf::SomeField, "some_field");
    check_value(ctx, "WithTableIden::Table", &WithTableIden::Table, "custom_tbl");
    check_value(ctx, "WithTableIden::AB", &WithTableIden::AB, "a_b");
    // the case-conversion model against heck
    let corpus = ["FontSize", "XMLHttpRequest", "SizeW", "Abc123Def", "A1Bc", "ID", "snake_case__x", "_lead", "trail_", "a", "A", "aB", "ABc", "AbC", "x1Y2", "HTTPServer2Go", "__", "created_at", "xY_z", "HTTPCode", "UTF8BOM", "X509V3Cert", "SHA256Sum", "A1B2", "Utf16LE", "I18N", "X86_64", "Sha3_256"];
    let mut check_conv = |ctx: &mut Ctx, s: &str| {
        let sc = s.to_string();
        ctx.case(format!("derive snake {}", hs(s)), format!("ok {}", hs(&s.to_snake_case())), s.len() > 1, &|| format!("to_snake_case({:?})", sc));
        ctx.case(format!("derive pascal {}", hs(s)), format!("ok {}", hs(&s.to_pascal_case())), s.len() > 1, &|| format!("to_pascal_case({:?})", sc));
        let valid = s.chars().take(1).all(|c| c == '_' || c.is_ascii_alphabetic()) && s.chars().all(|c| c == '_' || c.is_ascii_alphanumeric());
        ctx.case(format!("derive valid {}", hs(s)), format!("ok {}", valid as u8), s.len() > 1, &|| format!("must_be_valid_iden({:?})", sc));
    };
    for s in corpus { check_conv(ctx, s); }
    for _ in 0..n { let mut r = ctx.rng.fork(); let s = rand_ident(&mut r); check_conv(ctx, &s); }
    for s in ["a\"b", "c`d", "1a", "", "a b", "é"] { if s.is_ascii() { check_conv(ctx, s); } }
}
