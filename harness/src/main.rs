//! seaq-harness: runs the real sea-query crate on generated cases, pipes the same cases
//! to the Lean driver (`seaq-driver`), compares, and evaluates each property's
//! implementation-level oracle. Prints one JSON report on stdout.
//!
//! usage: seaq-harness <PROP> --tier quick|thorough --seed N --driver PATH [--replay FILE]

mod c01;
mod c03;
mod c04;
mod c05;
mod c06;
mod c07;
mod c08;
mod c09;
mod explicit;
mod c10;
mod c11;
mod c12;
mod c13;
mod c14;
mod c15;
mod c16;
mod c17;
mod c18;
mod c19;
mod reflex;
mod sq;
mod sqlparse;
mod stmt;
mod ddl;
mod api;
mod util;

use std::collections::{BTreeMap, HashSet};
use std::io::{BufRead, BufReader, Write};
use std::process::{Command, Stdio};
use std::sync::mpsc;

pub use util::*;

pub struct Pending {
    pub line: String,
    pub expect: String,
    pub human: String,
    /// optional canonicalisation of the model's answer before comparison
    pub norm: Option<Box<dyn Fn(&str) -> String + Send>>,
}

/// Differential + oracle context handed to each property module.
pub struct Ctx {
    pub tier_thorough: bool,
    pub rng: SplitMix64,
    tx: Option<mpsc::Sender<Pending>>,
    driver_in: Option<std::process::ChildStdin>,
    pub evaluations: u64,
    pub nontrivial: u64,
    distinct: HashSet<u64>,
    pub dist: BTreeMap<String, u64>,
    pub samples: Vec<serde_json::Value>,
    pub oracle_failures: Vec<serde_json::Value>,
    pub oracle_fail_count: u64,
    fail_keys: BTreeMap<String, u64>,
    pub known: Vec<serde_json::Value>,
    pub rule: String,
    pub exhaustive: bool,
    pub notes: Vec<String>,
    pub replay: Option<serde_json::Value>,
}

impl Ctx {
    /// Submit one case: `line` goes to the model driver, `expect` is what the real crate
    /// produced in the driver's canonical result format.
    pub fn case(&mut self, line: String, expect: String, nontrivial: bool, human: &dyn Fn() -> String) {
        self.case_inner(line, expect, nontrivial, human, None)
    }
    pub fn case_norm(&mut self, line: String, expect: String, nontrivial: bool, human: &dyn Fn() -> String, norm: Box<dyn Fn(&str) -> String + Send>) {
        self.case_inner(line, expect, nontrivial, human, Some(norm))
    }
    fn case_inner(&mut self, line: String, expect: String, nontrivial: bool, human: &dyn Fn() -> String, norm: Option<Box<dyn Fn(&str) -> String + Send>>) {
        self.evaluations += 1;
        if nontrivial && self.distinct.insert(fnv(&line)) {
            self.nontrivial += 1;
        }
        if self.samples.len() < 6 && (self.evaluations % 9973 == 1 || self.evaluations < 3) {
            self.samples
                .push(serde_json::json!({"case": human(), "request": line, "impl": expect}));
        }
        if let Some(w) = self.driver_in.as_mut() {
            let _ = writeln!(w, "{}", line);
        }
        if let Some(tx) = &self.tx {
            let _ = tx.send(Pending { line, expect, human: human(), norm });
        }
    }
    /// Count an evaluation that has no model counterpart (oracle-only).
    pub fn eval_only(&mut self, key: &str, nontrivial: bool) {
        self.evaluations += 1;
        if nontrivial && self.distinct.insert(fnv(key)) {
            self.nontrivial += 1;
        }
    }
    pub fn count(&mut self, key: &str) {
        *self.dist.entry(key.to_string()).or_insert(0) += 1;
    }
    pub fn count_by(&mut self, key: &str, n: usize) {
        *self.dist.entry(key.to_string()).or_insert(0) += n as u64;
    }
    /// The property itself, evaluated on the real crate, failed for this input.
    pub fn oracle_fail(&mut self, what: &str, input: serde_json::Value) {
        self.oracle_fail_count += 1;
        // keep a few examples per class (or per what/position when unclassified)
        let key = match input.get("class").and_then(|c| c.as_str()) {
            Some(c) => c.to_string(),
            None => format!("{}|{}|{}", what, input.get("position").and_then(|p| p.as_str()).unwrap_or(""), input.get("backend").and_then(|p| p.as_str()).unwrap_or("")),
        };
        let n = self.fail_keys.entry(key).or_insert(0);
        *n += 1;
        if *n <= 3 && self.oracle_failures.len() < 90 {
            self.oracle_failures.push(serde_json::json!({"what": what, "input": input}));
        }
    }
    pub fn sample(&mut self, v: serde_json::Value) {
        if self.samples.len() < 12 {
            self.samples.push(v);
        }
    }
}

fn main() {
    let args: Vec<String> = std::env::args().collect();
    if args.len() < 2 {
        eprintln!("usage: seaq-harness <PROP> --tier quick|thorough --seed N --driver PATH [--replay FILE]");
        std::process::exit(2);
    }
    let prop = args[1].clone();
    if prop == "gen-values" {
        std::panic::set_hook(Box::new(|_| {}));
        match c12::gen_values() {
            Ok(s) => { print!("{s}"); std::process::exit(0); }
            Err(e) => { eprintln!("gen-values failed: {e}"); std::process::exit(1); }
        }
    }
    if prop == "gen-policy" {
        std::panic::set_hook(Box::new(|_| {}));
        match c05::gen_policy() {
            Ok(s) => { print!("{s}"); std::process::exit(0); }
            Err(e) => { eprintln!("gen-policy failed: {e}"); std::process::exit(1); }
        }
    }
    let mut tier = "quick".to_string();
    let mut seed: u64 = 1;
    let mut driver: Option<String> = None;
    let mut replay: Option<String> = None;
    let mut i = 2;
    while i < args.len() {
        match args[i].as_str() {
            "--tier" => { tier = args[i + 1].clone(); i += 2; }
            "--seed" => { seed = args[i + 1].parse().unwrap_or(1); i += 2; }
            "--driver" => { driver = Some(args[i + 1].clone()); i += 2; }
            "--replay" => { replay = Some(args[i + 1].clone()); i += 2; }
            _ => { i += 1; }
        }
    }
    // quiet panics: they are caught and classified per case (HARNESS_PANIC_TRACE=1 prints them, for debugging the harness itself)
    if std::env::var("HARNESS_PANIC_TRACE").is_ok() { std::panic::set_hook(Box::new(|i| eprintln!("PANIC {i}\n{}", std::backtrace::Backtrace::force_capture()))); } else { std::panic::set_hook(Box::new(|_| {})); }

    let (tx, rx) = mpsc::channel::<Pending>();
    let mut child = driver.as_ref().map(|d| {
        Command::new(d)
            .stdin(Stdio::piped())
            .stdout(Stdio::piped())
            .spawn()
            .expect("cannot start driver")
    });
    let driver_in = child.as_mut().map(|c| c.stdin.take().unwrap());
    let driver_out = child.as_mut().map(|c| c.stdout.take().unwrap());

    // comparer thread
    let cmp = std::thread::spawn(move || {
        let mut mismatches: Vec<serde_json::Value> = Vec::new();
        let mut n_mismatch: u64 = 0;
        let mut compared: u64 = 0;
        if let Some(out) = driver_out {
            let mut rd = BufReader::new(out);
            let mut buf = String::new();
            for p in rx.iter() {
                buf.clear();
                let n = rd.read_line(&mut buf).unwrap_or(0);
                let mut got = if n == 0 { "<driver-eof>".to_string() } else { buf.trim_end().to_string() };
                if let Some(f) = &p.norm { got = f(&got); }
                compared += 1;
                if got.trim_end() != p.expect.trim_end() {
                    n_mismatch += 1;
                    if mismatches.len() < 50 {
                        mismatches.push(serde_json::json!({
                            "case": p.human, "request": p.line, "impl": p.expect, "model": got}));
                    }
                }
            }
        } else {
            for _ in rx.iter() {}
        }
        (mismatches, n_mismatch, compared)
    });

    let replay_val = replay.map(|f| {
        let s = std::fs::read_to_string(&f).expect("cannot read replay file");
        serde_json::from_str::<serde_json::Value>(&s).expect("replay file is not JSON")
    });

    let mut ctx = Ctx {
        tier_thorough: tier == "thorough",
        rng: SplitMix64::new(seed),
        tx: Some(tx),
        driver_in,
        evaluations: 0,
        nontrivial: 0,
        distinct: HashSet::new(),
        dist: BTreeMap::new(),
        samples: Vec::new(),
        oracle_failures: Vec::new(),
        oracle_fail_count: 0,
        fail_keys: BTreeMap::new(),
        known: Vec::new(),
        rule: String::new(),
        exhaustive: false,
        notes: Vec::new(),
        replay: replay_val,
    };

    let ok = match prop.as_str() {
        "C01" | "C02" => { c01::run(&mut ctx, &prop); true }
        "C03" => { c03::run(&mut ctx); true }
        "C04" => { c04::run(&mut ctx); true }
        "C05" => { c05::run(&mut ctx); true }
        "C06" => { c06::run(&mut ctx); true }
        "C07" => { c07::run(&mut ctx); true }
        "C08" => { c08::run(&mut ctx); true }
        "C09" => { c09::run(&mut ctx); true }
        "C10" => { c10::run(&mut ctx); true }
        "C11" => { c11::run(&mut ctx); true }
        "C12" => { c12::run(&mut ctx); true }
        "C13" => { c13::run(&mut ctx); true }
        "C14" => { c14::run(&mut ctx); true }
        "C15" => { c15::run(&mut ctx); true }
        "C16" => { c16::run(&mut ctx); true }
        "C17" => { c17::run(&mut ctx); true }
        "C18" => { c18::run(&mut ctx); true }
        "C19" => { c19::run(&mut ctx); true }
        _ => false,
    };
    if !ok {
        eprintln!("unknown property {prop}");
        std::process::exit(2);
    }
    // close driver stdin and the channel, then collect
    drop(ctx.driver_in.take());
    drop(ctx.tx.take());
    let (mismatches, n_mismatch, compared) = cmp.join().unwrap();
    if let Some(mut c) = child {
        let _ = c.wait();
    }
    if matches!(prop.as_str(), "C01" | "C02" | "C07" | "C08" | "C09") { c01::report_flags(&mut ctx); }
    if matches!(prop.as_str(), "C13" | "C14") { c01::report_ddl_flags(&mut ctx); }
    let report = serde_json::json!({
        "property": prop,
        "tier": tier,
        "seed": seed,
        "evaluations": ctx.evaluations,
        "distinct_nontrivial": ctx.nontrivial,
        "compared_with_model": compared,
        "model_mismatches": n_mismatch,
        "mismatches": mismatches,
        "oracle_fail_count": ctx.oracle_fail_count,
        "oracle_failures": ctx.oracle_failures,
        "known": ctx.known,
        "rule": ctx.rule,
        "exhaustive": ctx.exhaustive,
        "distribution": ctx.dist,
        "samples": ctx.samples,
        "notes": ctx.notes,
    });
    println!("{}", serde_json::to_string(&report).unwrap());
}
