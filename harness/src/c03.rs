//! C03: inlined literals decode to the supplied value under the engine's lexer.
use crate::reflex::{self, B, Tok};
use crate::sq::*;
use crate::*;
use sea_query::*;

fn res(o: &Option<String>) -> String { match o { Some(s) => format!("ok {}", hs(s)), None => "panic".into() } }

/// characters the engine cannot represent in a literal (excluded by the property)
fn unrepresentable(b: B, s: &str) -> bool {
    match b { B::Mysql => false, _ => s.contains('\0') }
}

fn classify(b: B, s: &str) -> Option<&'static str> {
    let _ = (b, s);
    None
}

fn fail(ctx: &mut Ctx, class: Option<&'static str>, what: &str, input: serde_json::Value) {
    let mut v = input;
    if let Some(c) = class { v["class"] = serde_json::json!(c); ctx.count(&format!("oracle.known.{c}")); } else { ctx.count("oracle.unclassified"); }
    ctx.oracle_fail(what, v);
}

fn check_str(ctx: &mut Ctx, b: B, s: &str) {
    let out = value_to_string(b, &Value::String(Some(Box::new(s.to_string()))));
    let (sc, bn) = (s.to_string(), b.name());
    ctx.case(format!("lit {} str {}", bn, hs(s)), res(&out), !s.is_empty(), &|| format!("{}.value_to_string(String {:?})", bn, sc));
    if unrepresentable(b, s) { ctx.count("skipped.unrepresentable"); return; }
    oracle_single(ctx, b, out, s, "String");
}

fn oracle_single(ctx: &mut Ctx, b: B, out: Option<String>, s: &str, kind: &str) {
    match out {
        None => fail(ctx, None, "rendering the literal panicked", serde_json::json!({"backend": b.name(), "kind": kind, "value": s})),
        Some(sql) => match reflex::lex(b, &sql) {
            Ok(toks) if toks.len() == 1 && toks[0] == Tok::Str(s.to_string()) => { ctx.count("literal.ok"); }
            Ok(toks) => fail(ctx, classify(b, s), "the literal is not ONE string token decoding to the value",
                serde_json::json!({"backend": b.name(), "kind": kind, "value": s, "sql": sql, "engine_sees": format!("{:?}", toks)})),
            Err(e) => fail(ctx, classify(b, s), "the engine's lexer rejects the literal",
                serde_json::json!({"backend": b.name(), "kind": kind, "value": s, "sql": sql, "lex_error": e})),
        },
    }
}

fn check_char(ctx: &mut Ctx, b: B, c: char) {
    let out = value_to_string(b, &Value::Char(Some(c)));
    let bn = b.name();
    ctx.case(format!("lit {} char i:{}", bn, c as u32), res(&out), true, &|| format!("{}.value_to_string(Char {:?})", bn, c));
    let s = c.to_string();
    if unrepresentable(b, &s) { return; }
    match out {
        None => fail(ctx, None, "rendering Value::Char panicked", serde_json::json!({"backend": bn, "char": s, "codepoint": c as u32})),
        Some(sql) => match reflex::lex(b, &sql) {
            Ok(toks) if toks.len() == 1 && toks[0] == Tok::Str(s.clone()) => { ctx.count("literal.ok"); }
            other => fail(ctx, classify(b, &s), "Value::Char literal does not decode to the character",
                serde_json::json!({"backend": bn, "char": s, "codepoint": c as u32, "sql": sql, "engine_sees": format!("{:?}", other)})),
        },
    }
}

fn check_bytes(ctx: &mut Ctx, b: B, bytes: &[u8]) {
    let out = value_to_string(b, &Value::Bytes(Some(Box::new(bytes.to_vec()))));
    let bn = b.name();
    let bc = bytes.to_vec();
    ctx.case(format!("lit {} bytes {}", bn, hb(bytes)), res(&out), !bytes.is_empty(), &|| format!("{}.value_to_string(Bytes {:?})", bn, bc));
    match out {
        None => fail(ctx, None, "rendering bytes panicked", serde_json::json!({"backend": bn, "bytes": hex(bytes)})),
        Some(sql) => {
            let ok = match reflex::lex(b, &sql) {
                Ok(toks) if toks.len() == 1 => match (&toks[0], b) {
                    (Tok::Bytes(v), B::Mysql) | (Tok::Bytes(v), B::Sqlite) => v == bytes,
                    // Postgres: a standard string whose content is the bytea hex format
                    (Tok::Str(t), B::Postgres) => t.strip_prefix("\\x").and_then(unhex).map(|v| v == bytes).unwrap_or(false),
                    _ => false,
                },
                _ => false,
            };
            if ok { ctx.count("literal.ok"); } else {
                fail(ctx, None, "binary literal does not decode to the bytes", serde_json::json!({"backend": bn, "bytes": hex(bytes), "sql": sql}));
            }
        }
    }
}

fn gen_json(r: &mut SplitMix64, depth: u32) -> serde_json::Value {
    let pick_str = |r: &mut SplitMix64| -> String {
        let n = r.below(5);
        (0..n).map(|_| if r.chance(2, 3) { *r.pick(&ALPHABET) } else { random_char(r) }).collect()
    };
    match r.below(if depth == 0 { 4 } else { 6 }) {
        0 => serde_json::Value::Null,
        1 => serde_json::json!(r.below(1000) as i64 - 500),
        2 => serde_json::Value::Bool(r.chance(1, 2)),
        3 => serde_json::Value::String(pick_str(r)),
        4 => serde_json::Value::Array((0..r.below(3)).map(|_| gen_json(r, depth - 1)).collect()),
        _ => {
            let mut m = serde_json::Map::new();
            for _ in 0..r.below(3) { let k = pick_str(r); m.insert(k, gen_json(r, depth - 1)); }
            serde_json::Value::Object(m)
        }
    }
}

fn check_json(ctx: &mut Ctx, b: B, v: &serde_json::Value) {
    let text = v.to_string();
    let out = value_to_string(b, &Value::Json(Some(Box::new(v.clone()))));
    let bn = b.name();
    let tc = text.clone();
    // the model sees the serialised text (serde_json is outside the model) and must quote it like any string
    ctx.case(format!("lit {} str {}", bn, hs(&text)), res(&out), true, &|| format!("{}.value_to_string(Json {})", bn, tc));
    if unrepresentable(b, &text) { return; }
    oracle_single(ctx, b, out, &text, "Json");
}

fn check_array(ctx: &mut Ctx, elems: &[String]) {
    // Postgres arrays of text: ARRAY ['a','b'] / '{}'
    let b = B::Postgres;
    if elems.iter().any(|e| unrepresentable(b, e)) { return; }
    let v = Value::Array(ArrayType::String, Some(Box::new(elems.iter().map(|e| Value::from(e.clone())).collect())));
    let out = value_to_string(b, &v);
    ctx.eval_only(&format!("array {:?}", elems), !elems.is_empty());
    ctx.count("position.array elements");
    match out {
        None => fail(ctx, None, "rendering an array panicked", serde_json::json!({"backend": "postgres", "elements": elems})),
        Some(sql) => match reflex::lex(b, &sql) {
            Ok(toks) => {
                let got = reflex::strings(&toks);
                let want: Vec<String> = if elems.is_empty() { vec!["{}".to_string()] } else { elems.to_vec() };
                if got != want { fail(ctx, None, "array elements seen by the engine differ from the supplied values", serde_json::json!({"backend": "postgres", "sql": sql, "expected": want, "engine_sees": got})); }
            }
            Err(e) => fail(ctx, None, "the engine's lexer rejects the array literal", serde_json::json!({"backend": "postgres", "sql": sql, "lex_error": e})),
        },
    }
}

/// every position where a value is inlined: expected decoded string literals, in order
fn check_positions(ctx: &mut Ctx, b: B, s: &str, t: &str, c: char) {
    if unrepresentable(b, s) || unrepresentable(b, t) || unrepresentable(b, &c.to_string()) { return; }
    let bn = b.name();
    let mut cases: Vec<(&'static str, Option<String>, Vec<String>)> = Vec::new();
    let (s0, t0) = (s.to_string(), t.to_string());
    // query value + constant
    let q = Query::select().expr(Expr::val(s)).expr(SimpleExpr::Constant(Value::from(t))).to_owned();
    cases.push(("select value+constant", to_string_q(b, &q), vec![s0.clone(), t0.clone()]));
    // ORDER BY FIELD
    let q = Query::select().column(alias("c")).from(alias("t"))
        .order_by(alias("c"), Order::Field(Values(vec![s.into(), t.into()]))).to_owned();
    cases.push(("order by field", to_string_q(b, &q), vec![s0.clone(), t0.clone()]));
    // LIKE … ESCAPE
    let q = Query::select().column(alias("c")).from(alias("t"))
        .and_where(Expr::col(alias("c")).like(LikeExpr::new(s).escape(c))).to_owned();
    cases.push(("like escape", to_string_q(b, &q), vec![s0.clone(), c.to_string()]));
    // insert values / update set
    let q = Query::insert().into_table(alias("t")).columns([alias("a"), alias("b")]).values_panic([s.into(), t.into()]).to_owned();
    cases.push(("insert values", to_string_q(b, &q), vec![s0.clone(), t0.clone()]));
    // DEFAULT and COMMENT in DDL
    let st = Table::create().table(alias("t")).comment(t)
        .col(ColumnDef::new(alias("c")).string().default(s).comment(t)).to_owned();
    let exp = match b { B::Mysql => vec![s0.clone(), t0.clone(), t0.clone()], _ => vec![s0.clone()] };
    cases.push(("create table default/comment", to_string_s(b, &st), exp));
    let st = Table::alter().table(alias("t")).add_column(ColumnDef::new(alias("c")).text().default(s)).to_owned();
    cases.push(("alter table add column default", to_string_s(b, &st), vec![s0.clone()]));
    // ENUM labels
    if b == B::Mysql {
        let st = Table::create().table(alias("t"))
            .col(ColumnDef::new(alias("c")).enumeration(alias("e"), [alias(s), alias(t)])).to_owned();
        cases.push(("mysql enum labels", to_string_s(b, &st), vec![s0.clone(), t0.clone()]));
    }
    if b == B::Postgres {
        use sea_query::extension::postgres::Type;
        let st = Type::create().as_enum(alias("e")).values([alias(s), alias(t)]).to_owned();
        cases.push(("create type labels", std::panic::catch_unwind(std::panic::AssertUnwindSafe(|| st.to_string(PostgresQueryBuilder))).ok(), vec![s0.clone(), t0.clone()]));
        let st = Type::alter().name(alias("e")).add_value(alias(s)).before(alias(t));
        cases.push(("alter type add value", std::panic::catch_unwind(std::panic::AssertUnwindSafe(|| st.to_string(PostgresQueryBuilder))).ok(), vec![s0.clone(), t0.clone()]));
        let st = Type::alter().name(alias("e")).rename_value(alias(s), alias(t));
        cases.push(("alter type rename value", std::panic::catch_unwind(std::panic::AssertUnwindSafe(|| st.to_string(PostgresQueryBuilder))).ok(), vec![s0.clone(), t0.clone()]));
    }
    for (pos, sql, expect) in cases {
        ctx.eval_only(&format!("pos {bn} {pos} {s} {t}"), true);
        ctx.count(&format!("position.{pos}"));
        let class = classify(b, s).or(classify(b, t)).or(classify(b, &c.to_string()));
        match sql {
            None => fail(ctx, None, "rendering panicked", serde_json::json!({"backend": bn, "position": pos, "s": s, "t": t, "escape_char": c.to_string()})),
            Some(sql) => match reflex::lex(b, &sql) {
                Ok(toks) => {
                    let got = reflex::strings(&toks);
                    if got != expect {
                        fail(ctx, class, "string literals seen by the engine differ from the supplied values",
                            serde_json::json!({"backend": bn, "position": pos, "sql": sql, "expected": expect, "engine_sees": got}));
                    }
                }
                Err(e) => fail(ctx, class, "the engine's lexer rejects the statement",
                    serde_json::json!({"backend": bn, "position": pos, "sql": sql, "expected": expect, "lex_error": e})),
            },
        }
    }
}

pub const ALPHABET: [char; 14] = ['\\', '\'', '"', '\0', '\x08', '\t', '\n', '\r', '\x1a', 'a', 'Z', 'z', '%', 'é'];

pub fn run(ctx: &mut Ctx) {
    let max_len = if ctx.tier_thorough { 5 } else { 4 };
    let nrand = if ctx.tier_thorough { 200000 } else { 20000 };
    ctx.rule = format!("value_to_string of String over ALL strings on the {}-symbol alphabet {:?} up to length {} (exhaustive) x 3 backends + {} random Unicode strings; Value::Char over all code points < 0x300 plus random scalars; Bytes: all single bytes, all byte pairs on a 16-value grid, random byte strings; Json values (random nested documents with quote/backslash/control characters in keys and strings) and Postgres text arrays; then every inlining position (query value, constant, ORDER BY FIELD, LIKE ESCAPE, INSERT, DEFAULT, COMMENT, ENUM labels, CREATE/ALTER TYPE labels) with strings from the same alphabet (length <= 2 exhaustive, then random). Oracle: independent reference lexer of each engine. Non-trivial = non-empty value; distinct by request.", ALPHABET.len(), ALPHABET, max_len, nrand);
    if let Some(rp) = ctx.replay.clone() {
        let i = rp.get("input").cloned().unwrap_or_default();
        let b = match i.get("backend").and_then(|x| x.as_str()) { Some("mysql") => B::Mysql, Some("postgres") => B::Postgres, _ => B::Sqlite };
        if let Some(s) = i.get("value").and_then(|x| x.as_str()) { check_str(ctx, b, s); }
        if let Some(cp) = i.get("codepoint").and_then(|x| x.as_u64()) { if let Some(c) = char::from_u32(cp as u32) { check_char(ctx, b, c); } }
        if let (Some(s), Some(t)) = (i.get("s").and_then(|x| x.as_str()), i.get("t").and_then(|x| x.as_str())) { check_positions(ctx, b, s, t, '|'); }
        return;
    }
    for b in B::all() {
        for len in 0..=max_len { for_each_string(&ALPHABET, len, &mut |s| check_str(ctx, b, s)); }
        for cp in 0..0x300u32 { if let Some(c) = char::from_u32(cp) { check_char(ctx, b, c); } }
        for x in 0..=255u8 { check_bytes(ctx, b, &[x]); }
        for x in (0..=255u8).step_by(17) { for y in (0..=255u8).step_by(17) { check_bytes(ctx, b, &[x, y]); } }
        check_bytes(ctx, b, &[]);
        for len in 0..=2 {
            let mut strs = Vec::new();
            for_each_string(&ALPHABET, len, &mut |s| strs.push(s.to_string()));
            for (k, s) in strs.iter().enumerate() {
                let t = &strs[(k * 7 + 3) % strs.len()];
                let c = ALPHABET[k % ALPHABET.len()];
                check_positions(ctx, b, s, t, c);
            }
        }
    }
    ctx.exhaustive = true;
    for _ in 0..nrand {
        let mut r = ctx.rng.fork();
        let s = random_string(&mut r, 16);
        let b = *r.pick(&B::all());
        check_str(ctx, b, &s);
        check_char(ctx, b, random_char(&mut r));
        let n = r.below(12);
        let bytes: Vec<u8> = (0..n).map(|_| r.below(256) as u8).collect();
        check_bytes(ctx, b, &bytes);
        let j = gen_json(&mut r, 2);
        check_json(ctx, b, &j);
        if r.chance(1, 3) {
            let n = r.below(4);
            let elems: Vec<String> = (0..n).map(|_| { let k = r.below(4); (0..k).map(|_| *r.pick(&ALPHABET)).collect() }).collect();
            check_array(ctx, &elems);
        }
        if r.chance(1, 4) {
            let t = random_string(&mut r, 6);
            check_positions(ctx, b, &s, &t, random_char(&mut r));
        }
    }
}
