//! C14: MySQL / Postgres schema statements.  Generated schema statements (tables with every column
//! type and specification sequences, table-level keys / foreign keys / checks / options, ALTER
//! option sequences, indexes, foreign keys, Postgres types and extensions) are rendered by the
//! crate and parsed by a reference DDL grammar of the dialect (written from the MySQL 8.0 and
//! PostgreSQL 16 manuals); the parse tree must equal the tree expected from the scenario
//! description: every column with one type and each specification once, every table-level
//! element, every option, in declaration order, correctly separated and parenthesised.
use crate::reflex::{self, B, Tok};
use crate::sqlparse::{l, n, P, R, T};
use crate::*;
use sea_query::extension::postgres::{Extension, Type};
use sea_query::*;

fn a(s: &str) -> Alias { Alias::new(s) }
fn qb(b: B) -> Box<dyn SchemaBuilder> { crate::sq::sb(b) }

// ---------------------------------------------------------------- reference DDL grammar

const SPEC_START: [&str; 9] = ["NOT", "NULL", "DEFAULT", "AUTO_INCREMENT", "UNIQUE", "PRIMARY", "CHECK", "GENERATED", "COMMENT"];
const ACTIONS: [&str; 5] = ["RESTRICT", "CASCADE", "SET NULL", "NO ACTION", "SET DEFAULT"];

struct D<'a> { p: P<'a> }
impl<'a> D<'a> {
    fn b(&self) -> B { self.p.b }
    fn qname(&mut self) -> R<String> { let mut parts = vec![self.p.ident()?]; while self.p.eat(".") { parts.push(self.p.ident()?); } Ok(parts.join("\u{1}")) }
    fn str_lit(&mut self) -> R<String> { match self.p.t.get(self.p.i) { Some(Tok::Str(s)) => { self.p.i += 1; Ok(s.clone()) } _ => self.p.err("expected a string literal") } }
    fn num(&mut self) -> R<String> { match self.p.t.get(self.p.i) { Some(Tok::Num(s)) => { self.p.i += 1; Ok(s.clone()) } _ => self.p.err("expected a number") } }
    /// a type: a quoted name, `ENUM('a', ..)`, or words with optional numeric modifiers, UNSIGNED, array brackets
    fn ty(&mut self) -> R<T> {
        let mut v = Vec::new();
        if let Some(Tok::Ident(_)) = self.p.t.get(self.p.i) { v.push(l(format!("named:{}", self.p.ident()?))); }
        else if self.p.is("ENUM") && self.b() == B::Mysql { self.p.i += 1; self.p.expect("(")?; let mut vs = Vec::new(); loop { vs.push(l(format!("label:{}", self.str_lit()?))); if !self.p.eat(",") { break; } } self.p.expect(")")?; v.push(n("enum", vs)); }
        else {
            let mut words = Vec::new();
            while let Some(Tok::Word(w)) = self.p.t.get(self.p.i) { let up = w.to_ascii_uppercase(); if SPEC_START.contains(&up.as_str()) || up == "UNSIGNED" || up == "USING" { break; } words.push(w.to_ascii_lowercase()); self.p.i += 1; }
            if words.is_empty() { return self.p.err("expected a type name"); }
            v.push(l(format!("type:{}", words.join(" "))));
            if self.p.eat("(") { let mut ms = Vec::new(); loop { ms.push(l(format!("mod:{}", self.num()?))); if !self.p.eat(",") { break; } } self.p.expect(")")?; v.push(n("mods", ms)); }
            if self.p.eat("UNSIGNED") { if self.b() != B::Mysql { return self.p.err("UNSIGNED exists in MySQL only"); } v.push(l("UNSIGNED")); }
        }
        while self.p.is("[") { self.p.i += 1; self.p.expect("]")?; v.push(l("[]")); }
        Ok(n("type", v))
    }
    fn spec(&mut self) -> R<Option<T>> {
        if self.p.eat_seq(&["NOT", "NULL"]) { return Ok(Some(l("NOT NULL"))); }
        if self.p.eat("NULL") { return Ok(Some(l("NULL"))); }
        if self.p.eat("DEFAULT") { let e = self.p.expr(0)?; return Ok(Some(n("default", vec![e]))); }
        if self.p.eat("AUTO_INCREMENT") { if self.b() != B::Mysql { return self.p.err("AUTO_INCREMENT exists in MySQL only"); } return Ok(Some(l("AUTO_INCREMENT"))); }
        if self.p.eat("UNIQUE") { return Ok(Some(l("UNIQUE"))); }
        if self.p.eat_seq(&["PRIMARY", "KEY"]) { return Ok(Some(l("PRIMARY KEY"))); }
        if self.p.eat("CHECK") { self.p.expect("(")?; let e = self.p.expr(0)?; self.p.expect(")")?; return Ok(Some(n("check", vec![e]))); }
        if self.p.eat_seq(&["GENERATED", "ALWAYS", "AS"]) { self.p.expect("(")?; let e = self.p.expr(0)?; self.p.expect(")")?; let k = if self.p.eat("STORED") { "STORED" } else if self.p.eat("VIRTUAL") { "VIRTUAL" } else { return self.p.err("expected STORED or VIRTUAL"); }; return Ok(Some(n(&format!("generated:{k}"), vec![e]))); }
        if self.p.eat("COMMENT") { if self.b() != B::Mysql { return self.p.err("a column COMMENT exists in MySQL only"); } return Ok(Some(l(format!("comment:{}", self.str_lit()?)))); }
        Ok(None)
    }
    fn column_def(&mut self, type_optional: bool) -> R<T> {
        let name = self.p.ident()?;
        let mut v = vec![l(format!("name:{name}"))];
        let at_spec = |d: &D| d.p.text(0).map(|w| SPEC_START.contains(&w.as_str())).unwrap_or(false) || d.p.is(",") || d.p.is(")") || d.p.i >= d.p.t.len();
        if !(type_optional && at_spec(self)) { v.push(self.ty()?); }
        while let Some(s) = self.spec()? { v.push(s); }
        Ok(n("column", v))
    }
    fn idx_cols(&mut self) -> R<Vec<T>> {
        self.p.expect("(")?;
        let mut v = Vec::new();
        loop {
            let mut c = vec![l(format!("col:{}", self.p.ident()?))];
            if self.p.eat("(") { if self.b() != B::Mysql { return self.p.err("a key-part length exists in MySQL only"); } c.push(l(format!("prefix:{}", self.num()?))); self.p.expect(")")?; }
            if self.p.eat("ASC") { c.push(l("ASC")); } else if self.p.eat("DESC") { c.push(l("DESC")); }
            v.push(n("keypart", c));
            if !self.p.eat(",") { break; }
        }
        self.p.expect(")")?;
        Ok(v)
    }
    fn ident_list(&mut self) -> R<Vec<T>> { self.p.expect("(")?; let mut v = Vec::new(); loop { v.push(l(format!("col:{}", self.p.ident()?))); if !self.p.eat(",") { break; } } self.p.expect(")")?; Ok(v) }
    fn fk_tail(&mut self) -> R<Vec<T>> {
        // after FOREIGN KEY
        let mut v = vec![n("columns", self.ident_list()?)];
        self.p.expect("REFERENCES")?;
        v.push(l(format!("ref:{}", self.qname()?)));
        v.push(n("ref-columns", self.ident_list()?));
        for _ in 0..2 {
            if self.p.eat("ON") {
                let ev = if self.p.eat("DELETE") { "DELETE" } else if self.p.eat("UPDATE") { "UPDATE" } else { return self.p.err("expected DELETE or UPDATE"); };
                let act = ACTIONS.iter().find(|x| { let ws: Vec<&str> = x.split(' ').collect(); self.p.is_seq(&ws) }).copied();
                match act { Some(x) => { self.p.i += x.split(' ').count(); v.push(l(format!("on-{ev}:{x}"))); } None => return self.p.err("expected a referential action") }
            }
        }
        Ok(v)
    }
    fn table_constraint(&mut self) -> R<Option<T>> {
        let save = self.p.i;
        let mut v = Vec::new();
        if self.p.eat("CONSTRAINT") { if let Some(Tok::Ident(_)) = self.p.t.get(self.p.i) { v.push(l(format!("constraint:{}", self.p.ident()?))); } else if self.b() != B::Mysql { return self.p.err("CONSTRAINT needs a name"); } }
        if self.p.eat_seq(&["FOREIGN", "KEY"]) { v.extend(self.fk_tail()?); return Ok(Some(n("foreign-key", v))); }
        if self.p.eat("CHECK") { self.p.expect("(")?; let e = self.p.expr(0)?; self.p.expect(")")?; v.push(e); return Ok(Some(n("check", v))); }
        match self.b() {
            B::Mysql => {
                let mut kinds = Vec::new();
                if self.p.eat("PRIMARY") { kinds.push("PRIMARY"); }
                if self.p.eat("UNIQUE") { kinds.push("UNIQUE"); }
                if self.p.eat("FULLTEXT") { kinds.push("FULLTEXT"); }
                if !self.p.eat("KEY") && !self.p.eat("INDEX") { if kinds.is_empty() && v.is_empty() { self.p.i = save; return Ok(None); } return self.p.err("expected KEY"); }
                if let Some(Tok::Ident(_)) = self.p.t.get(self.p.i) { v.push(l(format!("name:{}", self.p.ident()?))); }
                if self.p.eat("USING") { v.push(l(format!("using:{}", self.p.text(0).unwrap_or_default()))); self.p.i += 1; }
                v.insert(0, l(format!("kind:{}", kinds.join(" "))));
                v.push(n("keyparts", self.idx_cols()?));
                Ok(Some(n("key", v)))
            }
            _ => {
                let kind = if self.p.eat_seq(&["PRIMARY", "KEY"]) { "PRIMARY KEY" } else if self.p.eat("UNIQUE") { "UNIQUE" } else { if v.is_empty() { self.p.i = save; return Ok(None); } return self.p.err("expected PRIMARY KEY, UNIQUE, FOREIGN KEY or CHECK after CONSTRAINT"); };
                v.insert(0, l(format!("kind:{kind}")));
                if self.p.eat_seq(&["NULLS", "NOT", "DISTINCT"]) { v.push(l("NULLS NOT DISTINCT")); }
                v.push(n("keyparts", self.idx_cols()?));
                if self.p.eat("INCLUDE") { v.push(n("include", self.ident_list()?)); }
                Ok(Some(n("key", v)))
            }
        }
    }
    fn statement(&mut self) -> R<T> {
        if self.p.eat("CREATE") {
            let temp = self.p.eat("TEMPORARY");
            if self.p.eat("TABLE") {
                let mut v = Vec::new();
                if temp { v.push(l("TEMPORARY")); }
                if self.p.eat_seq(&["IF", "NOT", "EXISTS"]) { v.push(l("IF NOT EXISTS")); }
                v.push(l(format!("table:{}", self.qname()?)));
                self.p.expect("(")?;
                loop { let e = match self.table_constraint()? { Some(c) => c, None => self.column_def(false)? }; v.push(e); if !self.p.eat(",") { break; } }
                self.p.expect(")")?;
                while self.p.i < self.p.t.len() {
                    if self.b() != B::Mysql { return self.p.err("table options exist in MySQL only"); }
                    if self.p.eat("ENGINE") { self.p.expect("=")?; v.push(l(format!("engine:{}", self.p.text(0).unwrap_or_default()))); self.p.i += 1; }
                    else if self.p.eat("COLLATE") { self.p.expect("=")?; v.push(l(format!("collate:{}", self.p.text(0).unwrap_or_default()))); self.p.i += 1; }
                    else if self.p.eat_seq(&["DEFAULT", "CHARSET"]) { self.p.expect("=")?; v.push(l(format!("charset:{}", self.p.text(0).unwrap_or_default()))); self.p.i += 1; }
                    else if self.p.eat("COMMENT") { v.push(l(format!("comment:{}", self.str_lit()?))); }
                    else { return self.p.err("unknown table option"); }
                }
                return Ok(n("create-table", v));
            }
            if temp { return self.p.err("TEMPORARY without TABLE"); }
            if self.p.eat("TYPE") { if self.b() != B::Postgres { return self.p.err("CREATE TYPE exists in Postgres only"); } let name = self.qname()?; self.p.expect("AS")?; self.p.expect("ENUM")?; self.p.expect("(")?; let mut vs = Vec::new(); if !self.p.is(")") { loop { vs.push(l(format!("label:{}", self.str_lit()?))); if !self.p.eat(",") { break; } } } self.p.expect(")")?; return Ok(n("create-type", vec![l(format!("name:{name}")), n("labels", vs)])); }
            if self.p.eat("EXTENSION") {
                if self.b() != B::Postgres { return self.p.err("CREATE EXTENSION exists in Postgres only"); }
                let mut v = Vec::new();
                if self.p.eat_seq(&["IF", "NOT", "EXISTS"]) { v.push(l("IF NOT EXISTS")); }
                v.push(l(format!("name:{}", self.word()?)));
                if self.p.eat_seq(&["WITH", "SCHEMA"]) { v.push(l(format!("schema:{}", self.word()?))); }
                if self.p.eat("VERSION") { v.push(l(format!("version:{}", self.word()?))); }
                if self.p.eat("CASCADE") { v.push(l("CASCADE")); }
                return Ok(n("create-extension", v));
            }
            let mut v = Vec::new();
            if self.p.eat("UNIQUE") { v.push(l("UNIQUE")); }
            if self.p.eat("FULLTEXT") { if self.b() != B::Mysql { return self.p.err("FULLTEXT exists in MySQL only"); } v.push(l("FULLTEXT")); }
            self.p.expect("INDEX")?;
            if self.p.eat_seq(&["IF", "NOT", "EXISTS"]) { if self.b() == B::Mysql { return self.p.err("CREATE INDEX IF NOT EXISTS does not exist in MySQL"); } v.push(l("IF NOT EXISTS")); }
            v.push(l(format!("name:{}", self.p.ident()?)));
            self.p.expect("ON")?;
            v.push(l(format!("table:{}", self.qname()?)));
            if self.p.eat("USING") { if self.b() == B::Mysql { return self.p.err("MySQL writes the index type after the key parts"); } v.push(l(format!("using:{}", self.p.text(0).unwrap_or_default()))); self.p.i += 1; }
            v.push(n("keyparts", self.idx_cols()?));
            if self.p.eat("USING") { if self.b() != B::Mysql { return self.p.err("Postgres writes the index method before the key parts"); } v.push(l(format!("using:{}", self.p.text(0).unwrap_or_default()))); self.p.i += 1; }
            if self.p.eat("INCLUDE") { if self.b() != B::Postgres { return self.p.err("INCLUDE exists in Postgres only"); } v.push(n("include", self.ident_list()?)); }
            if self.p.eat_seq(&["NULLS", "NOT", "DISTINCT"]) { if self.b() != B::Postgres { return self.p.err("NULLS NOT DISTINCT exists in Postgres only"); } v.push(l("NULLS NOT DISTINCT")); }
            if self.p.eat("WHERE") { if self.b() == B::Mysql { return self.p.err("partial indexes do not exist in MySQL"); } v.push(n("where", vec![self.p.expr(0)?])); }
            return Ok(n("create-index", v));
        }
        if self.p.eat("ALTER") {
            if self.p.eat("TYPE") {
                if self.b() != B::Postgres { return self.p.err("ALTER TYPE exists in Postgres only"); }
                let mut v = vec![l(format!("name:{}", self.qname()?))];
                if self.p.eat_seq(&["ADD", "VALUE"]) { if self.p.eat_seq(&["IF", "NOT", "EXISTS"]) { v.push(l("IF NOT EXISTS")); } v.push(l(format!("add:{}", self.str_lit()?))); if self.p.eat("BEFORE") { v.push(l(format!("before:{}", self.str_lit()?))); } else if self.p.eat("AFTER") { v.push(l(format!("after:{}", self.str_lit()?))); } }
                else if self.p.eat_seq(&["RENAME", "TO"]) { v.push(l(format!("rename-to:{}", self.p.ident()?))); }
                else if self.p.eat_seq(&["RENAME", "VALUE"]) { let x = self.str_lit()?; self.p.expect("TO")?; let y = self.str_lit()?; v.push(l(format!("rename-value:{x}:{y}"))); }
                else { return self.p.err("unknown ALTER TYPE action"); }
                return Ok(n("alter-type", v));
            }
            self.p.expect("TABLE")?;
            let mut v = vec![l(format!("table:{}", self.qname()?))];
            if self.p.eat_seq(&["RENAME", "TO"]) { if self.b() == B::Mysql { return self.p.err("MySQL renames with RENAME TABLE"); } v.push(l(format!("rename-to:{}", self.qname()?))); return Ok(n("rename-table", v)); }
            loop {
                let act = if self.p.eat_seq(&["ADD", "COLUMN"]) { let ine = self.p.eat_seq(&["IF", "NOT", "EXISTS"]); let c = self.column_def(false)?; n(if ine { "add-column-if-not-exists" } else { "add-column" }, vec![c]) }
                    else if self.p.eat_seq(&["MODIFY", "COLUMN"]) { if self.b() != B::Mysql { return self.p.err("MODIFY COLUMN exists in MySQL only"); } n("modify-column", vec![self.column_def(true)?]) }
                    else if self.p.eat_seq(&["ALTER", "COLUMN"]) {
                        if self.b() != B::Postgres { return self.p.err("ALTER COLUMN sub-clauses are Postgres syntax"); }
                        let c = self.p.ident()?;
                        if self.p.eat("TYPE") { let t = self.ty()?; let mut x = vec![l(format!("col:{c}")), t]; if self.p.eat("USING") { x.push(n("using", vec![self.p.expr(0)?])); } n("alter-type", x) }
                        else if self.p.eat_seq(&["SET", "NOT", "NULL"]) { n("set-not-null", vec![l(format!("col:{c}"))]) }
                        else if self.p.eat_seq(&["DROP", "NOT", "NULL"]) { n("drop-not-null", vec![l(format!("col:{c}"))]) }
                        else if self.p.eat_seq(&["SET", "DEFAULT"]) { n("set-default", vec![l(format!("col:{c}")), self.p.expr(0)?]) }
                        else { return self.p.err("unknown ALTER COLUMN action"); }
                    }
                    else if self.p.eat_seq(&["ADD", "UNIQUE"]) { n("add-unique", self.ident_list()?) }
                    else if self.p.eat_seq(&["ADD", "PRIMARY", "KEY"]) { n("add-primary-key", self.ident_list()?) }
                    else if self.p.eat_seq(&["RENAME", "COLUMN"]) { let x = self.p.ident()?; self.p.expect("TO")?; let y = self.p.ident()?; n("rename-column", vec![l(x), l(y)]) }
                    else if self.p.eat_seq(&["DROP", "COLUMN"]) { n("drop-column", vec![l(self.p.ident()?)]) }
                    else if self.p.eat_seq(&["DROP", "FOREIGN", "KEY"]) { if self.b() != B::Mysql { return self.p.err("DROP FOREIGN KEY is MySQL syntax"); } n("drop-foreign-key", vec![l(self.p.ident()?)]) }
                    else if self.p.eat_seq(&["DROP", "CONSTRAINT"]) { n("drop-constraint", vec![l(self.p.ident()?)]) }
                    else if self.p.eat("ADD") { match self.table_constraint()? { Some(c) => n("add", vec![c]), None => return self.p.err("expected a constraint after ADD") } }
                    else { return self.p.err("unknown ALTER TABLE action"); };
                v.push(act);
                if !self.p.eat(",") { break; }
            }
            return Ok(n("alter-table", v));
        }
        if self.p.eat_seq(&["RENAME", "TABLE"]) { if self.b() != B::Mysql { return self.p.err("RENAME TABLE is MySQL syntax"); } let x = self.qname()?; self.p.expect("TO")?; let y = self.qname()?; return Ok(n("rename-table", vec![l(format!("table:{x}")), l(format!("rename-to:{y}"))])); }
        if self.p.eat_seq(&["TRUNCATE", "TABLE"]) { return Ok(n("truncate", vec![l(format!("table:{}", self.qname()?))])); }
        if self.p.eat("DROP") {
            if self.p.eat("TABLE") { let mut v = Vec::new(); if self.p.eat_seq(&["IF", "EXISTS"]) { v.push(l("IF EXISTS")); } loop { v.push(l(format!("table:{}", self.qname()?))); if !self.p.eat(",") { break; } } if self.p.eat("RESTRICT") { v.push(l("RESTRICT")); } if self.p.eat("CASCADE") { v.push(l("CASCADE")); } return Ok(n("drop-table", v)); }
            if self.p.eat("INDEX") {
                let mut v = Vec::new();
                if self.p.eat_seq(&["IF", "EXISTS"]) { v.push(l("IF EXISTS")); }
                v.push(l(format!("name:{}", self.qname()?)));
                if self.p.eat("ON") { if self.b() != B::Mysql { return self.p.err("DROP INDEX .. ON is MySQL syntax"); } v.push(l(format!("table:{}", self.qname()?))); } else if self.b() == B::Mysql { return self.p.err("MySQL needs DROP INDEX .. ON table"); }
                return Ok(n("drop-index", v));
            }
            if self.p.eat("TYPE") { let mut v = Vec::new(); if self.p.eat_seq(&["IF", "EXISTS"]) { v.push(l("IF EXISTS")); } loop { v.push(l(format!("name:{}", self.qname()?))); if !self.p.eat(",") { break; } } if self.p.eat("CASCADE") { v.push(l("CASCADE")); } else if self.p.eat("RESTRICT") { v.push(l("RESTRICT")); } return Ok(n("drop-type", v)); }
            if self.p.eat("EXTENSION") { let mut v = Vec::new(); if self.p.eat_seq(&["IF", "EXISTS"]) { v.push(l("IF EXISTS")); } v.push(l(format!("name:{}", self.word()?))); if self.p.eat("CASCADE") { v.push(l("CASCADE")); } if self.p.eat("RESTRICT") { v.push(l("RESTRICT")); } return Ok(n("drop-extension", v)); }
        }
        self.p.err("unknown schema statement")
    }
    fn word(&mut self) -> R<String> { match self.p.t.get(self.p.i) { Some(Tok::Word(w)) => { self.p.i += 1; Ok(w.clone()) } Some(Tok::Num(w)) => { self.p.i += 1; Ok(w.clone()) } _ => self.p.err("expected a word") } }
}

pub fn parse_ddl(b: B, sql: &str) -> Result<T, String> {
    let t = reflex::lex(b, sql)?;
    let mut d = D { p: P::new(b, &t) };
    let s = d.statement()?;
    if d.p.i != t.len() { return d.p.err("trailing tokens after the statement"); }
    Ok(s)
}

// ---------------------------------------------------------------- scenarios and their expected trees

/// acceptable spellings of the type a dialect must use for an abstract column type (from the manuals), as a `type` tree
fn expected_type(b: B, t: &ColumnType, autoinc: bool) -> Option<T> {
    let plain = |s: &str| Some(n("type", vec![l(format!("type:{s}"))]));
    let mods = |s: &str, m: &[u32]| Some(n("type", vec![l(format!("type:{s}")), n("mods", m.iter().map(|x| l(format!("mod:{x}"))).collect())]));
    let uns = |s: &str| Some(n("type", vec![l(format!("type:{s}")), l("UNSIGNED")]));
    if b == B::Postgres && autoinc { return match t { ColumnType::SmallInteger => plain("smallserial"), ColumnType::Integer => plain("serial"), ColumnType::BigInteger => plain("bigserial"), _ => None }; }
    match (b, t) {
        (_, ColumnType::Char(None)) => plain("char"), (_, ColumnType::Char(Some(k))) => mods("char", &[*k]),
        (_, ColumnType::String(StringLen::N(k))) => mods("varchar", &[*k]),
        (B::Mysql, ColumnType::String(StringLen::None)) => mods("varchar", &[255]), (B::Mysql, ColumnType::String(StringLen::Max)) => mods("varchar", &[65535]),
        (_, ColumnType::String(_)) => plain("varchar"), (_, ColumnType::Text) => plain("text"),
        (B::Mysql, ColumnType::TinyInteger) => plain("tinyint"), (B::Mysql, ColumnType::TinyUnsigned) => uns("tinyint"), (B::Mysql, ColumnType::SmallInteger) => plain("smallint"), (B::Mysql, ColumnType::SmallUnsigned) => uns("smallint"),
        (B::Mysql, ColumnType::Integer) => plain("int"), (B::Mysql, ColumnType::Unsigned) => uns("int"), (B::Mysql, ColumnType::BigInteger) => plain("bigint"), (B::Mysql, ColumnType::BigUnsigned) => uns("bigint"),
        (_, ColumnType::TinyInteger | ColumnType::TinyUnsigned | ColumnType::SmallInteger | ColumnType::SmallUnsigned) => plain("smallint"), (_, ColumnType::Integer | ColumnType::Unsigned) => plain("integer"), (_, ColumnType::BigInteger | ColumnType::BigUnsigned) => plain("bigint"),
        (B::Mysql, ColumnType::Float) => plain("float"), (_, ColumnType::Float) => plain("real"), (B::Mysql, ColumnType::Double) => plain("double"), (_, ColumnType::Double) => plain("double precision"),
        (_, ColumnType::Decimal(None)) => plain("decimal"), (_, ColumnType::Decimal(Some((p, s)))) => mods("decimal", &[*p, *s]),
        (B::Mysql, ColumnType::DateTime) => plain("datetime"), (_, ColumnType::DateTime) => plain("timestamp without time zone"), (_, ColumnType::Timestamp) => plain("timestamp"),
        (B::Mysql, ColumnType::TimestampWithTimeZone) => plain("timestamp"), (_, ColumnType::TimestampWithTimeZone) => plain("timestamp with time zone"), (_, ColumnType::Time) => plain("time"), (_, ColumnType::Date) => plain("date"),
        (B::Mysql, ColumnType::Year) => plain("year"),
        (B::Mysql, ColumnType::Binary(k)) => mods("binary", &[*k]), (B::Mysql, ColumnType::VarBinary(StringLen::N(k))) => mods("varbinary", &[*k]), (B::Mysql, ColumnType::VarBinary(StringLen::None)) => mods("varbinary", &[255]),
        (B::Mysql, ColumnType::VarBinary(StringLen::Max)) => mods("varbinary", &[65535]), (B::Mysql, ColumnType::Blob) => plain("blob"),
        (_, ColumnType::Binary(_) | ColumnType::VarBinary(_) | ColumnType::Blob) => plain("bytea"),
        (_, ColumnType::Bit(None)) => plain("bit"), (_, ColumnType::Bit(Some(k))) => mods("bit", &[*k]), (B::Mysql, ColumnType::VarBit(k)) => mods("bit", &[*k]), (_, ColumnType::VarBit(k)) => mods("varbit", &[*k]),
        (_, ColumnType::Boolean) => plain("bool"),
        (B::Mysql, ColumnType::Money(None)) => plain("decimal"), (B::Mysql, ColumnType::Money(Some((p, s)))) => mods("decimal", &[*p, *s]), (_, ColumnType::Money(_)) => plain("money"),
        (_, ColumnType::Json) => plain("json"), (B::Mysql, ColumnType::JsonBinary) => plain("json"), (_, ColumnType::JsonBinary) => plain("jsonb"),
        (B::Mysql, ColumnType::Uuid) => mods("binary", &[16]), (_, ColumnType::Uuid) => plain("uuid"),
        (B::Postgres, ColumnType::Cidr) => plain("cidr"), (B::Postgres, ColumnType::Inet) => plain("inet"), (B::Postgres, ColumnType::MacAddr) => plain("macaddr"), (B::Postgres, ColumnType::LTree) => plain("ltree"),
        (B::Postgres, ColumnType::Vector(None)) => plain("vector"), (B::Postgres, ColumnType::Vector(Some(k))) => mods("vector", &[*k]),
        (B::Postgres, ColumnType::Array(e)) => expected_type(b, e, false).map(|t| match t { T::N(k, mut c) => { c.push(l("[]")); T::N(k, c) } x => x }),
        (B::Mysql, ColumnType::Enum { variants, .. }) => Some(n("type", vec![n("enum", variants.iter().map(|v| l(format!("label:{}", v.to_string()))).collect())])),
        (B::Postgres, ColumnType::Enum { name, .. }) => plain(&name.to_string().to_lowercase()).map(|_| n("type", vec![l(format!("type:{}", name.to_string().to_lowercase()))])),
        _ => None,
    }
}

#[derive(Clone)]
struct Spec { kind: u8, val: Option<Value>, text: String }
#[derive(Clone)]
struct Col { name: String, ty: ColumnType, specs: Vec<Spec>, money_mods: bool }

struct G { r: SplitMix64, b: B, k: u32, /// Postgres `money(p, s)` was generated (recorded finding)
    money_mods: bool, /// a Postgres MODIFY COLUMN with a CHECK / comment specification (recorded finding)
    pg_modify_odd: bool }
impl G {
    fn name(&mut self, p: &str) -> String { self.k += 1; let odd: [&str; 6] = ["", "", "", " x", "'q", "-d"]; format!("{p}{}{}", self.k, self.r.pick(&odd)) }
    fn ty(&mut self) -> ColumnType {
        let r = &mut self.r; let k = 1 + r.below(400) as u32;
        loop {
            let t = match r.below(40) {
                0 => ColumnType::Char(None), 1 => ColumnType::Char(Some(k)), 2 => ColumnType::String(StringLen::None), 3 => ColumnType::String(StringLen::N(k)), 4 => ColumnType::String(StringLen::Max), 5 => ColumnType::Text,
                6 => ColumnType::TinyInteger, 7 => ColumnType::SmallInteger, 8 => ColumnType::Integer, 9 => ColumnType::BigInteger, 10 => ColumnType::TinyUnsigned, 11 => ColumnType::SmallUnsigned, 12 => ColumnType::Unsigned, 13 => ColumnType::BigUnsigned,
                14 => ColumnType::Float, 15 => ColumnType::Double, 16 => ColumnType::Decimal(None), 17 => ColumnType::Decimal(Some((1 + r.below(30) as u32, r.below(10) as u32))), 18 => ColumnType::DateTime, 19 => ColumnType::Timestamp,
                20 => ColumnType::TimestampWithTimeZone, 21 => ColumnType::Time, 22 => ColumnType::Date, 23 => ColumnType::Year, 24 => ColumnType::Binary(k), 25 => ColumnType::VarBinary(StringLen::N(k)), 26 => ColumnType::VarBinary(StringLen::None),
                27 => ColumnType::Blob, 28 => ColumnType::Bit(None), 29 => ColumnType::Bit(Some(1 + r.below(60) as u32)), 30 => ColumnType::VarBit(1 + r.below(60) as u32), 31 => ColumnType::Boolean, 32 => ColumnType::Money(None),
                33 => ColumnType::Money(Some((1 + r.below(12) as u32, r.below(4) as u32))), 34 => ColumnType::Json, 35 => ColumnType::JsonBinary, 36 => ColumnType::Uuid,
                37 => r.pick(&[ColumnType::Cidr, ColumnType::Inet, ColumnType::MacAddr, ColumnType::LTree, ColumnType::Vector(None), ColumnType::Vector(Some(3))]).clone(),
                38 => ColumnType::Enum { name: a("Mood").into_iden(), variants: vec![a("ok").into_iden(), a("it's").into_iden()] },
                _ => crate::util::array_of(if r.chance(1, 2) { ColumnType::Integer } else { ColumnType::String(StringLen::N(k)) }),
            };
            let ok = match (self.b, &t) { (B::Mysql, ColumnType::Cidr | ColumnType::Inet | ColumnType::MacAddr | ColumnType::LTree | ColumnType::Vector(_) | ColumnType::Array(_)) => false, (B::Postgres, ColumnType::Year) => false, _ => true };
            if ok { return t; }
        }
    }
    fn column(&mut self, for_modify: bool) -> Col {
        let ty = self.ty();
        let mut specs = Vec::new();
        let n = self.r.below(4);
        let mut used = [false; 9];
        for _ in 0..n {
            let kind = self.r.below(9) as u8;
            if used[kind as usize] { continue; }
            used[kind as usize] = true;
            // 0 NOT NULL 1 NULL 2 DEFAULT 3 UNIQUE 4 PRIMARY KEY 5 AUTO_INCREMENT 6 CHECK 7 COMMENT (MySQL) 8 GENERATED ALWAYS AS (..) STORED | VIRTUAL
            // (Postgres: STORED only; MODIFY COLUMN on Postgres writes nothing for it; not together with DEFAULT / AUTO_INCREMENT)
            if kind == 8 && (used[2] || used[5] || (for_modify && self.b == B::Postgres)) { continue; }
            if (kind == 2 || kind == 5) && used[8] { continue; }
            if kind == 1 && used[0] || kind == 0 && used[1] { continue; }
            if kind == 5 && !(matches!(ty, ColumnType::SmallInteger | ColumnType::Integer | ColumnType::BigInteger)) { continue; }
            if for_modify && self.b == B::Postgres && (kind == 5) { continue; }
            let val = if kind == 2 { Some(match self.r.below(3) { 0 => Value::Int(Some(self.r.below(50) as i32)), 1 => Value::String(Some(Box::new("it's".into()))), _ => Value::Bool(Some(true)) }) } else { None };
            if for_modify && self.b == B::Postgres && (kind == 6 || kind == 7) { self.pg_modify_odd = true; }
            specs.push(Spec { kind, val, text: if kind == 7 { "a 'comment'".into() } else if kind == 8 { (if self.b == B::Postgres || self.r.chance(1, 2) { "STORED" } else { "VIRTUAL" }).into() } else { String::new() } });
        }
        let money_mods = self.b == B::Postgres && matches!(ty, ColumnType::Money(Some(_)));
        if money_mods { self.money_mods = true; }
        Col { name: self.name("c"), ty, specs, money_mods }
    }
    fn build_col(&self, c: &Col, with_type: bool) -> ColumnDef {
        let mut d = if with_type { ColumnDef::new_with_type(a(&c.name), c.ty.clone()) } else { ColumnDef::new(a(&c.name)) };
        for s in &c.specs {
            match s.kind { 0 => { d.not_null(); } 1 => { d.null(); } 2 => { d.default(s.val.clone().unwrap()); } 3 => { d.unique_key(); } 4 => { d.primary_key(); } 5 => { d.auto_increment(); }
                6 => { d.check(Expr::col(a(&c.name)).gt(Expr::val(0))); } 7 => { d.comment(s.text.as_str()); }
                _ => { d.generated(Expr::col(a("base")).mul(Expr::val(2)), s.text == "STORED"); } }
        }
        d
    }
    fn lit(&self, v: &Value) -> T { match v { Value::Int(Some(i)) => l(format!("num:{i}")), Value::String(Some(s)) => l(format!("str:{s}")), Value::Bool(Some(b)) => l(if *b { "kw:TRUE" } else { "kw:FALSE" }), _ => l("kw:NULL") } }
    /// the `column` tree the grammar must produce
    fn col_tree(&self, c: &Col, with_type: bool) -> Option<T> {
        let autoinc = c.specs.iter().any(|s| s.kind == 5);
        let mut v = vec![l(format!("name:{}", c.name))];
        if with_type { v.push(expected_type(self.b, &c.ty, autoinc)?); }
        for s in &c.specs {
            match s.kind { 0 => v.push(l("NOT NULL")), 1 => v.push(l("NULL")), 2 => v.push(n("default", vec![self.lit(s.val.as_ref().unwrap())])), 3 => v.push(l("UNIQUE")), 4 => v.push(l("PRIMARY KEY")),
                5 => { if self.b == B::Mysql { v.push(l("AUTO_INCREMENT")); } }
                6 => v.push(n("check", vec![n("op:>", vec![l(format!("col:{}", c.name)), l("num:0")])])),
                7 => { if self.b == B::Mysql { v.push(l(format!("comment:{}", s.text))); } }
                _ => v.push(n(&format!("generated:{}", s.text), vec![n("op:*", vec![l("col:base"), l("num:2")])])) }
        }
        Some(n("column", v))
    }
    fn keyparts(&mut self, cols: &[Col], allow_prefix: bool) -> (Vec<(String, Option<u32>, Option<bool>)>, Vec<T>) {
        let k = 1 + self.r.below(cols.len().min(3) as u64) as usize;
        let parts: Vec<(String, Option<u32>, Option<bool>)> = cols.iter().take(k).map(|c| (c.name.clone(), if allow_prefix && self.b == B::Mysql && self.r.chance(1, 5) { Some(1 + self.r.below(20) as u32) } else { None }, match self.r.below(3) { 0 => Some(true), 1 => Some(false), _ => None })).collect();
        let trees = parts.iter().map(|(c, p, d)| { let mut v = vec![l(format!("col:{c}"))]; if let Some(p) = p { v.push(l(format!("prefix:{p}"))); } match d { Some(true) => v.push(l("DESC")), Some(false) => v.push(l("ASC")), None => {} } n("keypart", v) }).collect();
        (parts, trees)
    }
    fn index_stmt(&self, name: Option<&str>, parts: &[(String, Option<u32>, Option<bool>)]) -> IndexCreateStatement { let mut ix = Index::create(); self.fill_index(&mut ix, name, parts); ix }
    fn fill_index(&self, ix: &mut IndexCreateStatement, name: Option<&str>, parts: &[(String, Option<u32>, Option<bool>)]) {
        if let Some(nm) = name { ix.name(nm); }
        for (c, p, d) in parts {
            let o = d.map(|x| if x { IndexOrder::Desc } else { IndexOrder::Asc });
            match (p, o) { (Some(p), Some(o)) => { ix.col((a(c), *p, o)); } (Some(p), None) => { ix.col((a(c), *p)); } (None, Some(o)) => { ix.col((a(c), o)); } (None, None) => { ix.col(a(c)); } }
        }
    }
    fn fk(&mut self, from: &str, cols: &[Col], with_name: bool) -> (ForeignKeyCreateStatement, Vec<T>, Option<String>) {
        let k = 1 + self.r.below(cols.len().min(2) as u64) as usize;
        let name = if with_name { Some(self.name("fk")) } else { None };
        let target = self.name("p");
        let (od, ou) = (if self.r.chance(1, 2) { Some(self.r.below(5) as usize) } else { None }, if self.r.chance(1, 2) { Some(self.r.below(5) as usize) } else { None });
        let acts = [ForeignKeyAction::Restrict, ForeignKeyAction::Cascade, ForeignKeyAction::SetNull, ForeignKeyAction::NoAction, ForeignKeyAction::SetDefault];
        let mut f = ForeignKey::create();
        if let Some(nm) = &name { f.name(nm.as_str()); }
        f.from_tbl(a(from)).to_tbl(a(&target));
        let mut v = Vec::new();
        if let Some(nm) = &name { v.push(l(format!("constraint:{nm}"))); }
        let mut cs = Vec::new(); let mut rs = Vec::new();
        for c in cols.iter().take(k) { f.from_col(a(&c.name)); cs.push(l(format!("col:{}", c.name))); let rc = format!("r_{}", c.name); f.to_col(a(&rc)); rs.push(l(format!("col:{rc}"))); }
        v.push(n("columns", cs)); v.push(l(format!("ref:{target}"))); v.push(n("ref-columns", rs));
        if let Some(x) = od { f.on_delete(acts[x].clone()); v.push(l(format!("on-DELETE:{}", ACTIONS[x]))); }
        if let Some(x) = ou { f.on_update(acts[x].clone()); v.push(l(format!("on-UPDATE:{}", ACTIONS[x]))); }
        (f.to_owned(), v, name)
    }
}

/// one generated statement: its rendering (None = the crate panicked), the expected tree, a finding class
struct Case { what: &'static str, sql: Option<String>, expect: Option<T>, class: Option<&'static str> }

fn gen_case(g: &mut G) -> Case {
    let b = g.b;
    let render = |s: &dyn Fn() -> String| catch(|| s());
    match g.r.below(if b == B::Postgres { 12 } else { 9 }) {
        0..=3 => { // CREATE TABLE
            let tname = g.name("t");
            let nc = 1 + g.r.below(5) as usize;
            let cols: Vec<Col> = (0..nc).map(|_| g.column(false)).collect();
            let mut st = Table::create(); st.table(a(&tname));
            let mut v = Vec::new();
            if g.r.chance(1, 6) { st.temporary(); v.push(l("TEMPORARY")); }
            if g.r.chance(1, 4) { st.if_not_exists(); v.push(l("IF NOT EXISTS")); }
            v.push(l(format!("table:{tname}")));
            let mut ok = true;
            for c in &cols { st.col(g.build_col(c, true)); match g.col_tree(c, true) { Some(t) => v.push(t), None => ok = false } }
            // table-level keys; half of the tables declare them through ONE builder object, refilled after each call (the calls
            // take the name and the columns out of it) — what a fresh builder per key gives
            let reuse = g.r.chance(1, 2);
            let mut shared = Index::create();
            if g.r.chance(1, 3) {
                let (parts, trees) = g.keyparts(&cols, false);
                let named = g.r.chance(1, 2); let nm = if named { Some(g.name("pk")) } else { None };
                if reuse { g.fill_index(&mut shared, nm.as_deref(), &parts); st.primary_key(&mut shared); } else { st.primary_key(&mut g.index_stmt(nm.as_deref(), &parts)); }
                let mut k = Vec::new();
                if b == B::Mysql { k.push(l("kind:PRIMARY")); if let Some(x) = &nm { k.push(l(format!("name:{x}"))); } } else { if let Some(x) = &nm { k.push(l(format!("constraint:{x}"))); } k.insert(0, l("kind:PRIMARY KEY")); }
                k.push(n("keyparts", trees)); v.push(n("key", k));
            }
            if g.r.chance(1, 3) {
                let (parts, trees) = g.keyparts(&cols, true);
                let nm = g.name("uq");
                // a partial-index predicate on a key declared inside CREATE TABLE is not written (table constraints have no WHERE)
                let partial = g.r.chance(1, 4);
                if reuse { g.fill_index(&mut shared, Some(&nm), &parts); shared.unique(); if partial { shared.and_where(Expr::col(a(&cols[0].name)).is_not_null()); } st.index(&mut shared); }
                else { let mut ix = g.index_stmt(Some(&nm), &parts); ix.unique(); if partial { ix.and_where(Expr::col(a(&cols[0].name)).is_not_null()); } st.index(&mut ix); }
                let k = if b == B::Mysql { vec![l("kind:UNIQUE"), l(format!("name:{nm}")), n("keyparts", trees)] } else { vec![l("kind:UNIQUE"), l(format!("constraint:{nm}")), n("keyparts", trees)] };
                v.push(n("key", k));
            }
            if b == B::Mysql && g.r.chance(1, 4) { let (parts, trees) = g.keyparts(&cols, true); let nm = g.name("ix"); st.index(&mut g.index_stmt(Some(&nm), &parts)); v.push(n("key", vec![l("kind:"), l(format!("name:{nm}")), n("keyparts", trees)])); }
            if g.r.chance(1, 3) { let named = b == B::Mysql || g.r.chance(3, 4); let (mut f, fv, _) = g.fk(&tname, &cols, named); st.foreign_key(&mut f); v.push(n("foreign-key", fv)); }
            if g.r.chance(1, 4) { st.check(Expr::col(a(&cols[0].name)).lt(Expr::val(100))); v.push(n("check", vec![n("op:<", vec![l(format!("col:{}", cols[0].name)), l("num:100")])])); }
            if b == B::Mysql {
                if g.r.chance(1, 4) { st.engine("InnoDB"); v.push(l("engine:INNODB")); }
                if g.r.chance(1, 5) { st.collate("utf8mb4_bin"); v.push(l("collate:UTF8MB4_BIN")); }
                if g.r.chance(1, 5) { st.character_set("utf8mb4"); v.push(l("charset:UTF8MB4")); }
                if g.r.chance(1, 5) { st.comment("it's a table"); let c = v.iter().position(|x| matches!(x, T::L(s) if s.starts_with("engine:") || s.starts_with("collate:") || s.starts_with("charset:"))).unwrap_or(v.len()); v.insert(c, l("comment:it's a table")); }
            }
            let class = if cols.iter().any(|c| c.money_mods) { Some("C14.pg_money_with_precision") } else { None };
            Case { what: "create table", sql: render(&|| st.build_any(&*qb(b))), expect: if ok { Some(n("create-table", v)) } else { None }, class }
        }
        4 | 5 => { // ALTER TABLE with an option sequence
            let tname = g.name("t");
            let mut st = Table::alter(); st.table(a(&tname));
            let mut v = vec![l(format!("table:{tname}"))];
            let mut ok = true; let mut class = None;
            let nopt = 1 + g.r.below(3);
            for _ in 0..nopt {
                match g.r.below(7) {
                    0 => { let c = g.column(false); let ine = g.r.chance(1, 3); if ine { st.add_column_if_not_exists(g.build_col(&c, true)); } else { st.add_column(g.build_col(&c, true)); } match g.col_tree(&c, true) { Some(t) => v.push(n(if ine { "add-column-if-not-exists" } else { "add-column" }, vec![t])), None => ok = false } if c.money_mods { class = Some("C14.pg_money_with_precision"); } }
                    1 => { // MODIFY COLUMN (MySQL: one definition; Postgres: one sub-clause per specification)
                        let with_type = g.r.chance(2, 3);
                        let c = g.column(true);
                        st.modify_column(g.build_col(&c, with_type));
                        if c.money_mods && with_type { class = Some("C14.pg_money_with_precision"); }
                        if b == B::Mysql { match g.col_tree(&c, with_type) { Some(t) => v.push(n("modify-column", vec![t])), None => ok = false } }
                        else {
                            if with_type { match expected_type(b, &c.ty, false) { Some(t) => v.push(n("alter-type", vec![l(format!("col:{}", c.name)), t])), None => ok = false } }
                            for s in &c.specs { match s.kind { 0 => v.push(n("set-not-null", vec![l(format!("col:{}", c.name))])), 1 => v.push(n("drop-not-null", vec![l(format!("col:{}", c.name))])), 2 => v.push(n("set-default", vec![l(format!("col:{}", c.name)), g.lit(s.val.as_ref().unwrap())])),
                                3 => v.push(n("add-unique", vec![l(format!("col:{}", c.name))])), 4 => v.push(n("add-primary-key", vec![l(format!("col:{}", c.name))])),
                                6 => { v.push(n("add", vec![n("check", vec![n("op:>", vec![l(format!("col:{}", c.name)), l("num:0")])])])); class = class.or(Some("C14.pg_modify_column_check_comment")); } _ => {} } }
                            // nothing a Postgres ALTER TABLE can express (a comment is not an ALTER TABLE action there): not a statement
                            if !with_type && c.specs.iter().all(|s| s.kind == 7 || s.kind == 5) { ok = false; }
                        }
                    }
                    2 => { let (x, y) = (g.name("c"), g.name("r")); st.rename_column(a(&x), a(&y)); v.push(n("rename-column", vec![l(x), l(y)])); }
                    3 => { let x = g.name("c"); st.drop_column(a(&x)); v.push(n("drop-column", vec![l(x)])); }
                    4 => { let cols = vec![g.column(false)]; let (f, fv, _) = g.fk(&tname, &cols, true); st.add_foreign_key(f.get_foreign_key()); v.push(n("add", vec![n("foreign-key", fv)])); }
                    5 => { let x = g.name("fk"); st.drop_foreign_key(a(&x)); v.push(n(if b == B::Mysql { "drop-foreign-key" } else { "drop-constraint" }, vec![l(x)])); }
                    _ => { let c = g.column(false); st.add_column(g.build_col(&c, true)); match g.col_tree(&c, true) { Some(t) => v.push(n("add-column", vec![t])), None => ok = false } if c.money_mods { class = Some("C14.pg_money_with_precision"); } }
                }
            }
            if g.pg_modify_odd { class = class.or(Some("C14.pg_modify_column_check_comment")); }
            let _ = &mut class;
            Case { what: "alter table", sql: render(&|| st.build_any(&*qb(b))), expect: if ok { Some(n("alter-table", v)) } else { None }, class }
        }
        6 => { // CREATE INDEX
            let cols: Vec<Col> = (0..3).map(|_| g.column(false)).collect();
            let (parts, trees) = g.keyparts(&cols, true);
            let (nm, tn) = (g.name("ix"), g.name("t"));
            let mut ix = g.index_stmt(Some(&nm), &parts); ix.table(a(&tn));
            let mut v = Vec::new();
            if g.r.chance(1, 3) { ix.unique(); v.push(l("UNIQUE")); }
            let full = b == B::Mysql && g.r.chance(1, 6); if full { ix.full_text(); v.push(l("FULLTEXT")); }
            if b == B::Postgres && g.r.chance(1, 3) { ix.if_not_exists(); v.push(l("IF NOT EXISTS")); }
            v.push(l(format!("name:{nm}"))); v.push(l(format!("table:{tn}")));
            let method = if !full && g.r.chance(1, 3) { Some(if g.r.chance(1, 2) { (IndexType::BTree, "BTREE") } else { (IndexType::Hash, "HASH") }) } else { None };
            if let Some((m, _)) = &method { ix.index_type(m.clone()); }
            if b == B::Postgres { if let Some((_, s)) = &method { v.push(l(format!("using:{s}"))); } }
            v.push(n("keyparts", trees));
            if b == B::Mysql { if let Some((_, s)) = &method { v.push(l(format!("using:{s}"))); } }
            if b == B::Postgres && g.r.chance(1, 4) { let c = g.name("inc"); ix.include(a(&c)); v.push(n("include", vec![l(format!("col:{c}"))])); }
            if b == B::Postgres && g.r.chance(1, 5) { ix.nulls_not_distinct(); v.push(l("NULLS NOT DISTINCT")); }
            if b == B::Postgres && g.r.chance(1, 3) { ix.and_where(Expr::col(a(&parts[0].0)).is_not_null()); v.push(n("where", vec![n("op:IS NOT", vec![l(format!("col:{}", parts[0].0)), l("kw:NULL")])])); }
            Case { what: "create index", sql: render(&|| ix.build_any(&*qb(b))), expect: Some(n("create-index", v)), class: None }
        }
        7 => { // foreign key create / drop as statements, drop index
            let tn = g.name("t");
            match g.r.below(3) {
                0 => { let cols = vec![g.column(false), g.column(false)]; let (f, fv, _) = g.fk(&tn, &cols, true); Case { what: "create foreign key", sql: render(&|| f.build_any(&*qb(b))), expect: Some(n("alter-table", vec![l(format!("table:{tn}")), n("add", vec![n("foreign-key", fv)])])), class: None } }
                1 => { let x = g.name("fk"); let st = ForeignKey::drop().name(x.as_str()).table(a(&tn)).to_owned(); Case { what: "drop foreign key", sql: render(&|| st.build_any(&*qb(b))), expect: Some(n("alter-table", vec![l(format!("table:{tn}")), n(if b == B::Mysql { "drop-foreign-key" } else { "drop-constraint" }, vec![l(x)])])), class: None } }
                _ => { let x = g.name("ix"); let mut st = Index::drop(); st.name(x.as_str());
                    // Postgres: an index is dropped by its (schema-qualified) name; the schema is taken from the table reference
                    let schema = if b == B::Postgres && g.r.chance(1, 2) { Some(g.name("sc")) } else { None };
                    match &schema { Some(sc) => { st.table((a(sc), a(&tn))); } None => { st.table(a(&tn)); } }
                    let mut v = Vec::new(); if b == B::Postgres && g.r.chance(1, 2) { st.if_exists(); v.push(l("IF EXISTS")); }
                    v.push(l(match &schema { Some(sc) => format!("name:{sc}\u{1}{x}"), None => format!("name:{x}") })); if b == B::Mysql { v.push(l(format!("table:{tn}"))); }
                    Case { what: "drop index", sql: render(&|| st.build_any(&*qb(b))), expect: Some(n("drop-index", v)), class: None } }
            }
        }
        8 => { // drop / rename / truncate
            let (x, y) = (g.name("t"), g.name("t"));
            match g.r.below(3) {
                0 => { let mut st = Table::drop(); st.table(a(&x)).table(a(&y)); let mut v = Vec::new(); if g.r.chance(1, 2) { st.if_exists(); v.push(l("IF EXISTS")); } v.push(l(format!("table:{x}"))); v.push(l(format!("table:{y}"))); if g.r.chance(1, 3) { st.cascade(); v.push(l("CASCADE")); }
                    Case { what: "drop table", sql: render(&|| st.build_any(&*qb(b))), expect: Some(n("drop-table", v)), class: None } }
                1 => { let st = Table::rename().table(a(&x), a(&y)).to_owned(); Case { what: "rename table", sql: render(&|| st.build_any(&*qb(b))), expect: Some(n("rename-table", vec![l(format!("table:{x}")), l(format!("rename-to:{y}"))])), class: None } }
                _ => { let st = Table::truncate().table(a(&x)).to_owned(); Case { what: "truncate", sql: render(&|| st.build_any(&*qb(b))), expect: Some(n("truncate", vec![l(format!("table:{x}"))])), class: None } }
            }
        }
        9 | 10 => { // Postgres types
            let nm = g.name("ty");
            match g.r.below(5) {
                0 => { let labels = ["ok", "it's", "x y"]; let k = 1 + g.r.below(3) as usize; let st = Type::create().as_enum(a(&nm)).values(labels[..k].iter().map(|s| a(s))).to_owned();
                    Case { what: "create type", sql: render(&|| st.to_string(PostgresQueryBuilder)), expect: Some(n("create-type", vec![l(format!("name:{nm}")), n("labels", labels[..k].iter().map(|s| l(format!("label:{s}"))).collect())])), class: None } }
                1 => { let mut st = Type::drop(); st.name(a(&nm)); let mut v = Vec::new(); if g.r.chance(1, 2) { st.if_exists(); v.push(l("IF EXISTS")); } v.push(l(format!("name:{nm}"))); if g.r.chance(1, 3) { st.cascade(); v.push(l("CASCADE")); }
                    Case { what: "drop type", sql: render(&|| st.to_string(PostgresQueryBuilder)), expect: Some(n("drop-type", v)), class: None } }
                2 => { // ADD VALUE with its two options set in either call order
                    let placement = g.r.below(3); let ine = g.r.chance(1, 2); let ine_first = g.r.chance(1, 2);
                    let mut st = Type::alter().name(a(&nm)).add_value(a("new'v"));
                    if ine && ine_first { st = st.if_not_exists(); }
                    st = match placement { 0 => st.before(a("ok")), 1 => st.after(a("ok")), _ => st };
                    if ine && !ine_first { st = st.if_not_exists(); }
                    let mut v = vec![l(format!("name:{nm}"))];
                    if ine { v.push(l("IF NOT EXISTS")); }
                    v.push(l("add:new'v"));
                    match placement { 0 => v.push(l("before:ok")), 1 => v.push(l("after:ok")), _ => {} }
                    Case { what: "alter type add value", sql: render(&|| st.to_string(PostgresQueryBuilder)), expect: Some(n("alter-type", v)), class: None } }
                3 => { let st = Type::alter().name(a(&nm)).rename_value(a("ok"), a("fine")); Case { what: "alter type rename value", sql: render(&|| st.to_string(PostgresQueryBuilder)), expect: Some(n("alter-type", vec![l(format!("name:{nm}")), l("rename-value:ok:fine")])), class: None } }
                _ => { let to = g.name("ty"); let st = Type::alter().name(a(&nm)).rename_to(a(&to)); Case { what: "alter type rename", sql: render(&|| st.to_string(PostgresQueryBuilder)), expect: Some(n("alter-type", vec![l(format!("name:{nm}")), l(format!("rename-to:{to}"))])), class: Some("C14.pg_alter_type_rename_to_literal") } }
            }
        }
        _ => { // Postgres extensions
            if g.r.chance(1, 2) { let mut st = Extension::create(); st.name("ltree"); let mut v = Vec::new(); if g.r.chance(1, 2) { st.if_not_exists(); v.push(l("IF NOT EXISTS")); } v.push(l("name:ltree")); if g.r.chance(1, 2) { st.schema("public"); v.push(l("schema:public")); } if g.r.chance(1, 3) { st.cascade(); v.push(l("CASCADE")); }
                Case { what: "create extension", sql: render(&|| st.to_string(PostgresQueryBuilder)), expect: Some(n("create-extension", v)), class: None } }
            else { let mut st = Extension::drop(); st.name("ltree"); let mut v = Vec::new(); if g.r.chance(1, 2) { st.if_exists(); v.push(l("IF EXISTS")); } v.push(l("name:ltree")); if g.r.chance(1, 2) { st.cascade(); v.push(l("CASCADE")); }
                Case { what: "drop extension", sql: render(&|| st.to_string(PostgresQueryBuilder)), expect: Some(n("drop-extension", v)), class: None } }
        }
    }
}

pub fn run(ctx: &mut Ctx) {
    crate::api::run_schema(ctx);
    ctx.rule = "generated schema statements (CREATE TABLE over every column type the dialect supports with lengths / precisions, specification sequences, table-level keys with prefixes and directions, foreign keys with actions, checks, MySQL table options; ALTER TABLE option sequences incl. MODIFY COLUMN; CREATE / DROP INDEX with methods, INCLUDE, NULLS NOT DISTINCT, partial; foreign key statements; DROP / RENAME / TRUNCATE; Postgres CREATE / ALTER / DROP TYPE and EXTENSION) x {MySQL, Postgres}; the rendering is parsed by the dialect's reference DDL grammar and the tree compared with the tree expected from the scenario".into();
    let total = if ctx.tier_thorough { 60000 } else { 8000 };
    let mut rng = ctx.rng.fork();
    for i in 0..total {
        let b = if i % 2 == 0 { B::Mysql } else { B::Postgres };
        let mut g = G { r: rng.fork(), b, k: 0, money_mods: false, pg_modify_odd: false };
        let c = gen_case(&mut g);
        ctx.count(&format!("{}.{}", b.name(), c.what));
        let Some(expect) = c.expect else { ctx.count("skipped.no-expectation"); continue };
        ctx.eval_only(&format!("{} {}", b.name(), expect.show()), true);
        let Some(sql) = c.sql else { ctx.oracle_fail("a schema statement from the dialect's supported feature set cannot be rendered (the crate panics)", serde_json::json!({"class": c.class, "backend": b.name(), "statement": c.what, "expected": expect.show()})); continue };
        match parse_ddl(b, &sql) {
            Err(e) => ctx.oracle_fail("the schema statement does not parse under the dialect's DDL grammar", serde_json::json!({"class": c.class, "backend": b.name(), "statement": c.what, "sql": sql, "error": e, "expected": expect.show()})),
            Ok(t) => if t != expect { ctx.oracle_fail("the schema statement does not parse into exactly the declared elements", serde_json::json!({"class": c.class, "backend": b.name(), "statement": c.what, "sql": sql, "parsed": t.show(), "expected": expect.show()})); },
        }
    }
    // the same builders through the Lean schema-statement model (MySQL and Postgres dialects)
    let k = if ctx.tier_thorough { 40000 } else { 4000 };
    crate::ddl::run_stream(ctx, &[B::Mysql, B::Postgres], k);
}
