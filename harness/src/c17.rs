//! C17: escape_string / unescape_string.
use crate::*;
use sea_query::{EscapeBuilder, MysqlQueryBuilder, PostgresQueryBuilder, SqliteQueryBuilder};

pub const BACKENDS: [&str; 3] = ["mysql", "postgres", "sqlite"];

pub fn escape(b: &str, s: &str) -> Option<String> {
    let s = s.to_string();
    let b = b.to_string();
    catch(move || match b.as_str() {
        "mysql" => MysqlQueryBuilder.escape_string(&s),
        "postgres" => PostgresQueryBuilder.escape_string(&s),
        _ => SqliteQueryBuilder.escape_string(&s),
    })
}
pub fn unescape(b: &str, s: &str) -> Option<String> {
    let s = s.to_string();
    let b = b.to_string();
    catch(move || match b.as_str() {
        "mysql" => MysqlQueryBuilder.unescape_string(&s),
        "postgres" => PostgresQueryBuilder.unescape_string(&s),
        _ => SqliteQueryBuilder.unescape_string(&s),
    })
}

fn res(o: &Option<String>) -> String {
    match o { Some(s) => format!("ok {}", hs(s)), None => "panic".into() }
}

fn check_one(ctx: &mut Ctx, b: &str, s: &str) {
    let e = escape(b, s);
    let sc = s.to_string();
    let bc = b.to_string();
    ctx.case(format!("esc {} {}", b, hs(s)), res(&e), !s.is_empty(), &|| format!("{}.escape_string({:?})", bc, sc));
    // the unescape model is tied on arbitrary strings, not only on images of escape
    let u0 = unescape(b, s);
    ctx.case(format!("unesc {} {}", b, hs(s)), res(&u0), !s.is_empty(), &|| format!("{}.unescape_string({:?})", bc, sc));
    match e {
        None => ctx.oracle_fail("escape_string panicked", serde_json::json!({"backend": b, "input": s})),
        Some(es) => {
            if es != s { ctx.count("escape.changed"); } else { ctx.count("escape.identity"); }
            match unescape(b, &es) {
                Some(u) if u == s => {}
                other => ctx.oracle_fail("unescape_string(escape_string(s)) != s",
                    serde_json::json!({"backend": b, "input": s, "escaped": es, "unescaped": other})),
            }
        }
    }
}

pub const ALPHABET: [char; 17] = ['\\', '\'', '"', '\0', '\x08', '\t', '\n', '\r', '\x1a', 'a', 'b', 'n', 'r', 't', 'z', '0', 'é'];

pub fn run(ctx: &mut Ctx) {
    let max_len = if ctx.tier_thorough { 5 } else { 4 };
    let nrand = if ctx.tier_thorough { 300000 } else { 30000 };
    ctx.rule = format!("ALL strings over the {}-symbol escape-relevant alphabet {:?} of length 0..={} (exhaustive) x 3 backends, then {} random Unicode strings x 3 backends; each evaluated through escape, unescape (on the raw string) and the round trip. Non-trivial = non-empty, distinct by (op, backend, input).", ALPHABET.len(), ALPHABET, max_len, nrand);
    if let Some(rp) = ctx.replay.clone() {
        let i = rp.get("input").cloned().unwrap_or_default();
        if let (Some(b), Some(s)) = (i.get("backend").and_then(|x| x.as_str()), i.get("input").and_then(|x| x.as_str())) {
            check_one(ctx, b, s);
        }
        return;
    }
    for b in BACKENDS {
        for len in 0..=max_len {
            for_each_string(&ALPHABET, len, &mut |s| check_one(ctx, b, s));
        }
    }
    ctx.exhaustive = true;
    for _ in 0..nrand {
        let mut r = ctx.rng.fork();
        let s = random_string(&mut r, 24);
        for b in BACKENDS { check_one(ctx, b, &s); }
    }
}
