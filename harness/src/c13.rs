//! C13: SQLite schema statements.  Scenarios (CREATE TABLE with every supported column type, all
//! orders of column specifications, table-level keys / foreign keys / checks, then sequences of
//! CREATE INDEX / ALTER / RENAME / DROP) are rendered by the crate for SQLite; next to each step
//! the harness writes the catalogue it expects the engine to report, derived from the scenario
//! description by SQLite's documented rules — not from the rendered text.  `bin/stages.py` executes
//! the steps on a real SQLite and compares PRAGMA table_xinfo / index_list / index_xinfo /
//! foreign_key_list, the affinity of every column (typeof of stored probes) and default values.
use crate::*;
use sea_query::*;
use std::io::Write as _;

#[derive(Clone, Debug)]
struct Col { /** an explicit NULL specification (the column is nullable anyway) */ explicit_null: bool, name: String, ty: ColumnType, aff: &'static str, not_null: bool, dflt: Option<Value>, unique: bool, pk: bool, autoinc: bool, check: bool, /// spec order: indices into the spec list
    order: Vec<u8> }
#[derive(Clone, Debug)]
struct Key { name: Option<String>, cols: Vec<(String, Option<bool>)>, unique: bool, primary: bool, partial: bool, created: bool }
#[derive(Clone, Debug)]
struct Fk { cols: Vec<String>, table: String, refs: Vec<String>, on_delete: Option<u8>, on_update: Option<u8> }
#[derive(Clone, Debug)]
struct Tbl { name: String, cols: Vec<Col>, keys: Vec<Key>, fks: Vec<Fk>, checks: u32 }

fn a(s: &str) -> Alias { Alias::new(s) }
const ACTIONS: [(&str, ForeignKeyAction); 5] = [("RESTRICT", ForeignKeyAction::Restrict), ("CASCADE", ForeignKeyAction::Cascade), ("SET NULL", ForeignKeyAction::SetNull), ("NO ACTION", ForeignKeyAction::NoAction), ("SET DEFAULT", ForeignKeyAction::SetDefault)];

/// every column type SQLite supports with the affinity intended for it (the property's list)
fn types(r: &mut SplitMix64) -> (ColumnType, &'static str) {
    let n = 1 + r.below(300) as u32;
    match r.below(30) {
        0 => (ColumnType::Char(None), "text"), 1 => (ColumnType::Char(Some(n)), "text"), 2 => (ColumnType::String(StringLen::None), "text"), 3 => (ColumnType::String(StringLen::N(n)), "text"),
        4 => (ColumnType::String(StringLen::Max), "text"), 5 => (ColumnType::Text, "text"), 6 => (ColumnType::TinyInteger, "integer"), 7 => (ColumnType::SmallInteger, "integer"),
        8 => (ColumnType::Integer, "integer"), 9 => (ColumnType::BigInteger, "integer"), 10 => (ColumnType::TinyUnsigned, "integer"), 11 => (ColumnType::SmallUnsigned, "integer"),
        12 => (ColumnType::Unsigned, "integer"), 13 => (ColumnType::BigUnsigned, "integer"), 14 => (ColumnType::Float, "real"), 15 => (ColumnType::Double, "real"),
        16 => (ColumnType::Decimal(if r.chance(1, 2) { Some((1 + r.below(16) as u32, r.below(6) as u32)) } else { None }), "real"), 17 => (ColumnType::DateTime, "text"), 18 => (ColumnType::Timestamp, "text"),
        19 => (ColumnType::TimestampWithTimeZone, "text"), 20 => (ColumnType::Time, "text"), 21 => (ColumnType::Date, "text"), 22 => (ColumnType::Binary(n), "blob"),
        23 => (ColumnType::VarBinary(if r.chance(1, 2) { StringLen::N(n) } else { StringLen::None }), "blob"), 24 => (ColumnType::Blob, "blob"), 25 => (ColumnType::Boolean, "numeric"),
        26 => (ColumnType::Money(if r.chance(1, 2) { Some((1 + r.below(38) as u32, r.below(4) as u32)) } else { None }), "real"), 27 => (if r.chance(1, 2) { ColumnType::Json } else { ColumnType::JsonBinary }, "text"),
        28 => (ColumnType::Uuid, "text"), // an enumeration is TEXT whatever it is called: names that contain the words SQLite derives an affinity from
        _ => (ColumnType::Enum { name: a(*r.pick(&["e", "mood", "point", "print_kind", "real_kind", "blob_kind", "character", "floating", "doubt", "clobber"])).into_iden(),
            variants: vec![a("x").into_iden(), a(*r.pick(&["y", "int", "it's"])).into_iden()] }, "text"),
    }
}
fn is_rowid_type(t: &ColumnType, autoinc: bool) -> bool { matches!(t, ColumnType::Integer | ColumnType::Unsigned) || (autoinc && matches!(t, ColumnType::BigInteger | ColumnType::BigUnsigned)) }

fn default_for(r: &mut SplitMix64, aff: &str) -> Value {
    match (aff, r.below(3)) {
        ("integer", 0) => Value::Int(Some(r.below(100) as i32 - 20)), ("integer", _) => Value::BigInt(Some(r.below(1000) as i64)),
        ("real", _) => Value::Double(Some(*r.pick(&[0.5, 2.0, -1.25]))), ("blob", _) => Value::Bytes(Some(Box::new(vec![1, 2, 255]))),
        ("numeric", _) => Value::Bool(Some(r.chance(1, 2))),
        (_, 0) => Value::String(Some(Box::new("it's".into()))), (_, 1) => Value::String(Some(Box::new("".into()))), _ => Value::String(Some(Box::new("a \"b\"".into()))),
    }
}
fn value_json(v: &Value) -> serde_json::Value {
    match crate::stmt::payload_of(v) {
        Some(crate::stmt::Pay::Bool(b)) => serde_json::json!({"t": "int", "v": b as i64}), Some(crate::stmt::Pay::Int(i)) => serde_json::json!({"t": "int", "v": i.to_string()}),
        Some(crate::stmt::Pay::Num(t)) => serde_json::json!({"t": "real", "v": t}), Some(crate::stmt::Pay::Str(s)) => serde_json::json!({"t": "text", "v": s}),
        Some(crate::stmt::Pay::Bytes(b)) => serde_json::json!({"t": "blob", "v": hex(&b)}), _ => serde_json::json!({"t": "null"}),
    }
}

struct G { r: SplitMix64, n: u32, /// a plain (non-unique, non-primary) index declared inside CREATE TABLE (finding)
    plain_table_index: bool }
impl G {
    fn name(&mut self, p: &str) -> String { self.n += 1; let odd = ["", "", "", " x", "\"q", "-d"]; format!("{p}{}{}", self.n, self.r.pick(&odd)) }
    fn column(&mut self, allow_key: bool) -> Col {
        let (ty, aff) = types(&mut self.r);
        let pk = allow_key && self.r.chance(1, 6);
        let autoinc = pk && matches!(ty, ColumnType::Integer | ColumnType::Unsigned | ColumnType::BigInteger | ColumnType::BigUnsigned) && self.r.chance(1, 2);
        let mut order: Vec<u8> = (0..6).collect();
        for i in (1..order.len()).rev() { let j = self.r.below(i as u64 + 1) as usize; order.swap(i, j); }
        { let not_null = self.r.chance(1, 3); let explicit_null = !not_null && !pk && self.r.chance(1, 3);
        Col { explicit_null, name: self.name("c"), ty, aff, not_null, dflt: if self.r.chance(1, 3) { Some(default_for(&mut self.r, aff)) } else { None }, unique: !pk && allow_key && self.r.chance(1, 8), pk, autoinc, check: self.r.chance(1, 8), order } }
    }
    fn build_col(&self, c: &Col) -> ColumnDef {
        let mut d = ColumnDef::new_with_type(a(&c.name), c.ty.clone());
        for k in &c.order {
            match k {
                0 => { if c.not_null { d.not_null(); } else if c.explicit_null { d.null(); } }
                1 => { if let Some(v) = &c.dflt { d.default(v.clone()); } }
                2 => { if c.unique { d.unique_key(); } }
                3 => { if c.pk { d.primary_key(); } }
                4 => { if c.autoinc { d.auto_increment(); } }
                _ => { if c.check { d.check(Expr::col(a(&c.name)).is_not_null().or(Expr::col(a(&c.name)).ne(Expr::val(0)))); } }
            }
        }
        d
    }
    fn table(&mut self, others: &[Tbl]) -> (Tbl, TableCreateStatement) {
        let name = self.name("t");
        let nc = 1 + self.r.below(6) as usize;
        let mut cols: Vec<Col> = Vec::new();
        let mut have_pk = false;
        for _ in 0..nc { let mut c = self.column(true); if c.pk && have_pk { c.pk = false; c.autoinc = false; } have_pk |= c.pk; cols.push(c); }
        let mut t = Tbl { name: name.clone(), cols, keys: vec![], fks: vec![], checks: 0 };
        let mut st = Table::create();
        st.table(a(&name));
        if self.r.chance(1, 5) { st.if_not_exists(); }
        for c in &t.cols { st.col(self.build_col(c)); }
        // table-level primary key (only if no column-level one), unique keys with directions
        let pick_cols = |g: &mut G, t: &Tbl| -> Vec<(String, Option<bool>)> {
            let k = 1 + g.r.below(t.cols.len().min(3) as u64) as usize;
            let mut idx: Vec<usize> = (0..t.cols.len()).collect();
            for i in (1..idx.len()).rev() { let j = g.r.below(i as u64 + 1) as usize; idx.swap(i, j); }
            idx.truncate(k);
            idx.iter().map(|i| (t.cols[*i].name.clone(), match g.r.below(3) { 0 => Some(true), 1 => Some(false), _ => None })).collect()
        };
        let fill = |ix: &mut IndexCreateStatement, key: &Key| {
            if let Some(n) = &key.name { ix.name(n.as_str()); }
            if key.unique && !key.primary { ix.unique(); }
            for (c, d) in &key.cols { match d { Some(true) => { ix.col((a(c), IndexOrder::Desc)); } Some(false) => { ix.col((a(c), IndexOrder::Asc)); } None => { ix.col(a(c)); } } }
        };
        let index_of = |key: &Key| -> IndexCreateStatement { let mut ix = Index::create(); fill(&mut ix, key); ix };
        // half of the tables declare their keys through ONE builder object, filled again after each call (the calls take the
        // name and the columns out of it): the primary key first, then the unique keys — what a fresh builder per key gives
        let reuse = self.r.chance(1, 2);
        let mut shared = Index::create();
        if !have_pk && self.r.chance(1, 3) {
            let key = Key { name: if self.r.chance(1, 2) { Some(self.name("pk")) } else { None }, cols: pick_cols(self, &t), unique: true, primary: true, partial: false, created: false };
            // (no key over exactly the columns of a UNIQUE column: SQLite would make one automatic index for both)
            if !(key.cols.len() == 1 && t.cols.iter().any(|c| c.unique && c.name == key.cols[0].0)) {
                if reuse { fill(&mut shared, &key); st.primary_key(&mut shared); } else { st.primary_key(&mut index_of(&key)); }
                t.keys.push(key);
            }
        }
        let nu = if self.r.chance(1, 3) { 1 + self.r.below(2) } else { 0 };
        for _ in 0..nu {
            let key = Key { name: if self.r.chance(1, 2) { Some(self.name("uq")) } else { None }, cols: pick_cols(self, &t), unique: true, primary: false, partial: false, created: false };
            // SQLite makes no second automatic index for a key over the same columns as an existing one: keep the scenario unambiguous
            let names: Vec<&String> = key.cols.iter().map(|c| &c.0).collect();
            if t.keys.iter().any(|k| k.cols.iter().map(|c| &c.0).collect::<Vec<_>>() == names) || (names.len() == 1 && t.cols.iter().any(|c| (c.pk || c.unique) && &c.name == names[0])) { continue; }
            if reuse { fill(&mut shared, &key); st.index(&mut shared); } else { st.index(&mut index_of(&key)); }
            t.keys.push(key);
        }
        if self.r.chance(1, 40) {
            // a plain index inside CREATE TABLE is not SQLite syntax (`CONSTRAINT "n" ("c")`): recorded finding
            let key = Key { name: Some(self.name("ix")), cols: pick_cols(self, &t), unique: false, primary: false, partial: false, created: false };
            st.index(&mut index_of(&key));
            self.plain_table_index = true;
        }
        // foreign keys to earlier tables (or to itself): none, one, or two (named or not, possibly both unnamed)
        let nfk = match self.r.below(6) { 0 | 1 => 1, 2 => 2, _ => 0 };
        for _ in 0..nfk {
            let target = if others.is_empty() || self.r.chance(1, 4) { t.clone() } else { self.r.pick(others).clone() };
            let k = 1 + self.r.below(target.cols.len().min(t.cols.len()).min(2) as u64) as usize;
            let fk = Fk { cols: t.cols.iter().take(k).map(|c| c.name.clone()).collect(), table: target.name.clone(), refs: target.cols.iter().take(k).map(|c| c.name.clone()).collect(),
                on_delete: if self.r.chance(1, 2) { Some(self.r.below(5) as u8) } else { None }, on_update: if self.r.chance(1, 2) { Some(self.r.below(5) as u8) } else { None } };
            let mut f = ForeignKey::create();
            if self.r.chance(1, 2) { f.name(self.name("fk").as_str()); }
            f.from_tbl(a(&t.name)).to_tbl(a(&fk.table));
            for c in &fk.cols { f.from_col(a(c)); }
            for c in &fk.refs { f.to_col(a(c)); }
            if let Some(x) = fk.on_delete { f.on_delete(ACTIONS[x as usize].1.clone()); }
            if let Some(x) = fk.on_update { f.on_update(ACTIONS[x as usize].1.clone()); }
            st.foreign_key(&mut f);
            t.fks.push(fk);
        }
        if self.r.chance(1, 5) { let c = t.cols[0].name.clone(); st.check(Expr::col(a(&c)).is_null().or(Expr::col(a(&c)).ne(Expr::val("zz")))); t.checks += 1; }
        t.checks += t.cols.iter().filter(|c| c.check).count() as u32;
        (t, st)
    }
}

/// what SQLite's catalogue reports for the expected table
fn expected(t: &Tbl) -> serde_json::Value {
    // primary key positions: column-level key, or the table-level PRIMARY KEY's column order
    let pk_cols: Vec<String> = match t.keys.iter().find(|k| k.primary) { Some(k) => k.cols.iter().map(|c| c.0.clone()).collect(), None => t.cols.iter().filter(|c| c.pk).map(|c| c.name.clone()).collect() };
    let columns: Vec<serde_json::Value> = t.cols.iter().map(|c| serde_json::json!({"name": c.name, "notnull": c.not_null, "dflt": c.dflt.as_ref().map(value_json), "pk": pk_cols.iter().position(|p| *p == c.name).map(|i| i + 1).unwrap_or(0), "affinity": c.aff})).collect();
    let mut indexes: Vec<serde_json::Value> = Vec::new();
    // the rowid alias (a single INTEGER PRIMARY KEY column declared in the column) has no index
    for c in &t.cols {
        if c.pk && !is_rowid_type(&c.ty, c.autoinc) { indexes.push(serde_json::json!({"origin": "pk", "unique": true, "partial": false, "columns": [[c.name, false]]})); }
        if c.unique { indexes.push(serde_json::json!({"origin": "u", "unique": true, "partial": false, "columns": [[c.name, false]]})); }
    }
    for k in &t.keys {
        let cols: Vec<serde_json::Value> = k.cols.iter().map(|(c, d)| serde_json::json!([c, d.unwrap_or(false)])).collect();
        // a table-level PRIMARY KEY over one INTEGER column (whatever its direction) is the rowid alias as well
        if k.primary && k.cols.len() == 1 { if let Some(c) = t.cols.iter().find(|c| c.name == k.cols[0].0) { if is_rowid_type(&c.ty, false) { continue; } } }
        indexes.push(serde_json::json!({"origin": if k.created { "c" } else if k.primary { "pk" } else { "u" }, "unique": k.unique, "partial": k.partial, "columns": cols, "name": if k.created { k.name.clone() } else { None }}));
    }
    let fks: Vec<serde_json::Value> = t.fks.iter().map(|f| serde_json::json!({"table": f.table, "from": f.cols, "to": f.refs, "on_delete": f.on_delete.map(|x| ACTIONS[x as usize].0).unwrap_or("NO ACTION"), "on_update": f.on_update.map(|x| ACTIONS[x as usize].0).unwrap_or("NO ACTION")})).collect();
    serde_json::json!({"name": t.name, "columns": columns, "indexes": indexes, "fks": fks, "autoincrement": t.cols.iter().any(|c| c.autoinc), "checks": t.checks})
}

pub fn run(ctx: &mut Ctx) {
    crate::api::run_schema(ctx);
    ctx.rule = "scenarios over every SQLite-supported ColumnType (with lengths / precisions) x random orders of the column specifications (NOT NULL, DEFAULT, UNIQUE, PRIMARY KEY, AUTOINCREMENT, CHECK) x table-level primary / unique keys with per-column direction, foreign keys with actions, checks, followed by CREATE [UNIQUE] INDEX (partial, IF NOT EXISTS), ALTER TABLE ADD / RENAME / DROP COLUMN, RENAME TABLE, DROP INDEX / TABLE; each step is rendered by the crate and executed on SQLite; the catalogue the engine reports is compared with the catalogue expected from the scenario description".into();
    let n = if ctx.tier_thorough { 6000 } else { 700 };
    let dir = std::env::var("VERIF_WORK").unwrap_or_else(|_| "/verif/work".into());
    let _ = std::fs::create_dir_all(&dir);
    let path = format!("{dir}/C13_cases.jsonl");
    let mut out = std::io::BufWriter::new(std::fs::File::create(&path).expect("cannot write cases file"));
    let mut rng = ctx.rng.fork();
    for _ in 0..n {
        let mut g = G { r: rng.fork(), n: 0, plain_table_index: false };
        let mut tables: Vec<Tbl> = Vec::new();
        let mut steps: Vec<serde_json::Value> = Vec::new();
        let mut ok = true;
        let snapshot = |tables: &[Tbl]| -> Vec<serde_json::Value> { tables.iter().map(expected).collect() };
        let mut push = |steps: &mut Vec<serde_json::Value>, what: &str, sql: Option<String>, tables: &[Tbl]| -> bool {
            match sql { Some(s) => { steps.push(serde_json::json!({"what": what, "sql": s, "expect": snapshot(tables)})); true } None => false }
        };
        let nt = 1 + g.r.below(2) as usize;
        for _ in 0..nt {
            let (t, st) = g.table(&tables);
            tables.push(t);
            ctx.count("step.create_table");
            if !push(&mut steps, "create table", catch(|| st.to_string(SqliteQueryBuilder)), &tables) { ctx.oracle_fail("a table definition from the supported feature set cannot be rendered (the crate panics)", serde_json::json!({"table": format!("{:?}", tables.last())})); ok = false; break; }
        }
        if !ok { continue; }
        let nsteps = g.r.below(5);
        for _ in 0..nsteps {
            let ti = g.r.below(tables.len() as u64) as usize;
            match g.r.below(7) {
                0 | 1 => { // CREATE [UNIQUE] INDEX [IF NOT EXISTS] .. [WHERE ..]
                    let t = &tables[ti];
                    let k = 1 + g.r.below(t.cols.len().min(2) as u64) as usize;
                    let cols: Vec<(String, Option<bool>)> = t.cols.iter().take(k).map(|c| (c.name.clone(), match g.r.below(3) { 0 => Some(true), 1 => Some(false), _ => None })).collect();
                    let key = Key { name: Some(g.name("ix")), cols, unique: g.r.chance(1, 3), primary: false, partial: g.r.chance(1, 3), created: true };
                    let mut ix = Index::create();
                    ix.name(key.name.as_ref().unwrap().as_str()).table(a(&t.name));
                    if key.unique { ix.unique(); }
                    if g.r.chance(1, 3) { ix.if_not_exists(); }
                    for (c, d) in &key.cols { match d { Some(true) => { ix.col((a(c), IndexOrder::Desc)); } Some(false) => { ix.col((a(c), IndexOrder::Asc)); } None => { ix.col(a(c)); } } }
                    if key.partial { ix.and_where(Expr::col(a(&key.cols[0].0)).is_not_null()); }
                    tables[ti].keys.push(key);
                    ctx.count("step.create_index");
                    if !push(&mut steps, "create index", catch(|| ix.to_string(SqliteQueryBuilder)), &tables) { ok = false; break; }
                }
                2 => { // ADD COLUMN (SQLite: no PRIMARY KEY / UNIQUE; NOT NULL needs a non-null default)
                    let mut c = g.column(false);
                    c.pk = false; c.unique = false; c.autoinc = false; c.check = false;
                    if c.not_null && c.dflt.is_none() { c.not_null = false; }
                    let st = Table::alter().table(a(&tables[ti].name)).add_column(g.build_col(&c)).to_owned();
                    tables[ti].cols.push(c);
                    ctx.count("step.add_column");
                    if !push(&mut steps, "add column", catch(|| st.to_string(SqliteQueryBuilder)), &tables) { ok = false; break; }
                }
                3 => { // RENAME COLUMN
                    let ci = g.r.below(tables[ti].cols.len() as u64) as usize;
                    let old = tables[ti].cols[ci].name.clone(); let new = g.name("r");
                    let st = Table::alter().table(a(&tables[ti].name)).rename_column(a(&old), a(&new)).to_owned();
                    let tname = tables[ti].name.clone();
                    for t in tables.iter_mut() {
                        if t.name == tname { t.cols[ci].name = new.clone(); for k in t.keys.iter_mut() { for c in k.cols.iter_mut() { if c.0 == old { c.0 = new.clone(); } } } for f in t.fks.iter_mut() { for c in f.cols.iter_mut() { if *c == old { *c = new.clone(); } } } }
                        for f in t.fks.iter_mut() { if f.table == tname { for c in f.refs.iter_mut() { if *c == old { *c = new.clone(); } } } }
                    }
                    ctx.count("step.rename_column");
                    if !push(&mut steps, "rename column", catch(|| st.to_string(SqliteQueryBuilder)), &tables) { ok = false; break; }
                }
                4 => { // DROP COLUMN: only a column that is not part of any key, constraint, foreign key or check
                    let t = &tables[ti];
                    let referenced = |c: &Col| c.pk || c.unique || c.check || t.keys.iter().any(|k| k.cols.iter().any(|x| x.0 == c.name)) || t.fks.iter().any(|f| f.cols.contains(&c.name)) || tables.iter().any(|o| o.fks.iter().any(|f| f.table == t.name && f.refs.contains(&c.name))) || (t.checks > 0 && t.cols[0].name == c.name);
                    if t.cols.len() < 2 { continue; }
                    let Some(ci) = (0..t.cols.len()).find(|i| !referenced(&t.cols[*i])) else { continue };
                    let st = Table::alter().table(a(&t.name)).drop_column(a(&t.cols[ci].name)).to_owned();
                    tables[ti].cols.remove(ci);
                    ctx.count("step.drop_column");
                    if !push(&mut steps, "drop column", catch(|| st.to_string(SqliteQueryBuilder)), &tables) { ok = false; break; }
                }
                5 => { // RENAME TABLE
                    let old = tables[ti].name.clone(); let new = g.name("n");
                    let st = Table::rename().table(a(&old), a(&new)).to_owned();
                    for t in tables.iter_mut() { if t.name == old { t.name = new.clone(); } for f in t.fks.iter_mut() { if f.table == old { f.table = new.clone(); } } }
                    ctx.count("step.rename_table");
                    if !push(&mut steps, "rename table", catch(|| st.to_string(SqliteQueryBuilder)), &tables) { ok = false; break; }
                }
                _ => { // DROP INDEX (a created one) or DROP TABLE
                    if let Some(ki) = tables[ti].keys.iter().position(|k| k.created) {
                        let nm = tables[ti].keys[ki].name.clone().unwrap();
                        let st = Index::drop().name(nm.as_str()).table(a(&tables[ti].name)).to_owned();
                        tables[ti].keys.remove(ki);
                        ctx.count("step.drop_index");
                        if !push(&mut steps, "drop index", catch(|| st.to_string(SqliteQueryBuilder)), &tables) { ok = false; break; }
                    } else if tables.len() > 1 && !tables.iter().any(|o| o.name != tables[ti].name && o.fks.iter().any(|f| f.table == tables[ti].name)) {
                        let st = Table::drop().table(a(&tables[ti].name)).if_exists().to_owned();
                        tables.remove(ti);
                        ctx.count("step.drop_table");
                        if !push(&mut steps, "drop table", catch(|| st.to_string(SqliteQueryBuilder)), &tables) { ok = false; break; }
                    }
                }
            }
        }
        if !ok { ctx.oracle_fail("a schema statement from the supported feature set cannot be rendered (the crate panics)", serde_json::json!({"steps": steps})); continue; }
        ctx.eval_only(&format!("{steps:?}"), true);
        writeln!(out, "{}", serde_json::json!({"steps": steps, "class": if g.plain_table_index { Some("C13.table_level_plain_index") } else { None }})).unwrap();
    }
    out.flush().unwrap();
    ctx.notes.push(format!("engine cases written to {path}"));
    // the same builder through the Lean schema-statement model (SQLite dialect)
    let k = if ctx.tier_thorough { 30000 } else { 3000 };
    crate::ddl::run_stream(ctx, &[crate::reflex::B::Sqlite], k);
}
