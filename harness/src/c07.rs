//! C07 (and the SQLite leg of C02 / C09): statements over a fixed schema, generated so that the
//! engine accepts them, rendered by the crate (inline and parameterised) and by an independent,
//! fully explicit renderer of the same recipe (`explicit`); `bin/stages.py` executes all three on
//! a real SQLite (python `sqlite3`) and compares rows, RETURNING rows and table contents.
use crate::reflex::B;
use crate::stmt::*;
use crate::*;
use sea_query::Value;
use std::io::Write as _;

pub const SCHEMA: &str = r#"
CREATE TABLE glyph (id INTEGER PRIMARY KEY, name TEXT, aspect REAL, image TEXT, size INTEGER, tag TEXT);
CREATE TABLE font (id INTEGER PRIMARY KEY, name TEXT UNIQUE, variant TEXT, size INTEGER);
CREATE TABLE chr (id INTEGER PRIMARY KEY, glyph_id INTEGER, font_id INTEGER, code INTEGER, width INTEGER, note TEXT, UNIQUE (font_id, code));
INSERT INTO glyph VALUES (1, 'a', 1.5, 'img-a', 10, 'x'), (2, 'b', NULL, 'img-b', 20, NULL), (3, 'a', 2.0, NULL, NULL, 'y'),
  (4, NULL, 0.5, 'img%d', 10, 'x'), (5, 'e_e', -1.25, 'IMG-E', 30, 'z'), (6, 'it''s', 3.0, 'img-f', 20, NULL), (7, 'b', 1.5, '', 0, 'x');
INSERT INTO font VALUES (1, 'serif', 'regular', 12), (2, 'sans', NULL, 10), (3, 'mono', 'bold', NULL), (4, 'hand', 'regular', 12);
INSERT INTO chr VALUES (1, 1, 1, 65, 7, 'A'), (2, 1, 2, 65, 8, NULL), (3, 2, 1, 66, 7, 'B'), (4, 3, 3, 67, NULL, 'C'), (5, NULL, 2, 68, 9, 'D'),
  (6, 5, NULL, 69, 7, NULL), (7, 6, 4, 70, 6, 'it''s'), (8, 7, 1, 71, 7, 'G'), (9, 2, 3, 66, 5, 'B');
"#;

#[derive(Clone)]
struct Tbl { name: &'static str, cols: &'static [(&'static str, char)] } // type tag: i int, r real, t text
const GLYPH: Tbl = Tbl { name: "glyph", cols: &[("id", 'i'), ("name", 't'), ("aspect", 'r'), ("image", 't'), ("size", 'i'), ("tag", 't')] };
const FONT: Tbl = Tbl { name: "font", cols: &[("id", 'i'), ("name", 't'), ("variant", 't'), ("size", 'i')] };
const CHR: Tbl = Tbl { name: "chr", cols: &[("id", 'i'), ("glyph_id", 'i'), ("font_id", 'i'), ("code", 'i'), ("width", 'i'), ("note", 't')] };
const TABLES: [Tbl; 3] = [GLYPH, FONT, CHR];

/// a relation in scope: alias and its columns
#[derive(Clone)]
struct Rel { alias: String, cols: Vec<(String, char)> }

pub struct Gen7 { pub rng: SplitMix64, fresh: u32, /// constructs whose rendering is a recorded finding (named WINDOW clause)
    pub named_window: bool,
    /// only features common to MySQL, Postgres and SQLite (C09)
    pub portable: bool,
    /// an ORDER BY item combines FIELD order with a NULLS option (the backends order such rows differently: finding C09-field-order-with-nulls)
    pub field_nulls: bool }

fn col(t: &str, c: &str) -> Ex { Ex::Col(ColRef::TCol(t.into(), c.into())) }
fn bin(l: Ex, o: u32, r: Ex) -> Ex { Ex::Bin(Box::new(l), Op::Std(o), Box::new(r)) }
fn ival(i: i64) -> Ex { Ex::Val(val(Value::BigInt(Some(i)))) }

impl Gen7 {
    pub fn new(rng: SplitMix64) -> Self { Gen7 { rng, fresh: 0, named_window: false, portable: false, field_nulls: false } }
    pub fn portable(rng: SplitMix64) -> Self { Gen7 { rng, fresh: 0, named_window: false, portable: true, field_nulls: false } }
    fn alias(&mut self, p: &str) -> String { self.fresh += 1; format!("{p}{}", self.fresh) }
    fn value(&mut self, ty: char) -> Val {
        let r = &mut self.rng;
        if r.chance(1, 10) { return val(match ty { 'i' => Value::BigInt(None), 'r' => Value::Double(None), _ => Value::String(None) }); }
        val(match ty {
            'i' => match r.below(4) { 0 => Value::Int(Some(r.below(40) as i32 - 5)), 1 => Value::BigInt(Some(r.below(100) as i64)), 2 => Value::SmallInt(Some(r.below(80) as i16)), _ => Value::Unsigned(Some(r.below(30) as u32)) },
            'r' => Value::Double(Some(*r.pick(&[0.0, 0.5, 1.5, 2.0, -1.25, 3.0, 10.25]))),
            'b' => Value::Bool(Some(r.chance(1, 2))),
            'y' => Value::Bytes(Some(Box::new((0..r.below(4)).map(|_| if r.chance(1, 2) { *r.pick(&[0u8, 1, 2, 9, 10, 15, 16, 39, 92, 127, 128, 255]) } else { r.next() as u8 }).collect()))),
            _ => Value::String(Some(Box::new(r.pick(&["a", "b", "x", "y", "it's", "img-a", "img%", "e_e", "", "serif", "regular", "B", "q?m", "$1", "back\\slash", "two\nlines", "tab\there", "cr\rlf\n"]).to_string()))),
        })
    }
    pub fn value7(&mut self, ty: char) -> Val { self.value(ty) }
    fn pick_col(&mut self, rels: &[Rel], want: Option<char>) -> (Ex, char) {
        // no relation in scope (a SELECT without FROM, a VALUES row): a value of the wanted type
        if rels.is_empty() { let ty = want.unwrap_or('i'); return (Ex::Val(self.value(ty)), ty); }
        for _ in 0..8 {
            let r = self.rng.pick(rels).clone();
            let (c, t) = self.rng.pick(&r.cols).clone();
            if want.is_none() || want == Some(t) { return (col(&r.alias, &c), t); }
        }
        let r = &rels[0]; (col(&r.alias, &r.cols[0].0), r.cols[0].1)
    }
    /// scalar expression of (roughly) the given type over the relations in scope; `agg`: aggregates allowed
    fn scalar(&mut self, rels: &[Rel], ty: char, depth: u32, agg: bool) -> Ex {
        if depth == 0 || self.rng.chance(1, 3) {
            return if !rels.is_empty() && self.rng.chance(2, 3) { self.pick_col(rels, Some(ty)).0 } else { Ex::Val(self.value(ty)) };
        }
        let d = depth - 1;
        match (ty, self.rng.below(12)) {
            ('i' | 'r', 0..=3) => { let o = *self.rng.pick(&[16u32, 17, 18, 16, 17, 20, 19]); let (l, r) = (self.scalar(rels, ty, d, agg), self.scalar(rels, 'i', d, agg)); bin(l, o, r) }
            ('i', 4) => { let o = *self.rng.pick(&[21u32, 22, 23, 24]); let (l, r) = (self.scalar(rels, 'i', d, agg), self.scalar(rels, 'i', d, false)); bin(l, o, r) }
            // bit test `flags & (1 << n)` and friends: a shift or bit operator nested in another
            ('i', 5) if self.rng.chance(1, 2) => { let (a, b, c) = (self.scalar(rels, 'i', 0, false), ival(1 + self.rng.below(3) as i64), ival(1 + self.rng.below(3) as i64));
                // (shift counts and masks are never 0: a degenerate operand would hide which way the engine groups the two operators)
                let (o1, o2) = (*self.rng.pick(&[21u32, 22, 23, 24]), *self.rng.pick(&[21u32, 22, 23, 24, 23, 24, 16, 18]));
                if self.rng.chance(1, 2) { bin(a, o1, bin(b, o2, c)) } else { bin(bin(a, o2, b), o1, c) } }
            ('i', 5) => Ex::Func(Fun::Std(10), false, vec![self.scalar(rels, 't', d, agg)]),
            ('i' | 'r', 6) => Ex::Func(Fun::Std(4), false, vec![self.scalar(rels, ty, d, agg)]),
            (_, 7) => { let n = 2 + self.rng.below(2) as usize; Ex::Func(Fun::Std(*self.rng.pick(&[5u32, 8, 9])), false, (0..n).map(|_| self.scalar(rels, ty, d, agg)).collect()) }
            (_, 8) => Ex::Func(Fun::Std(7), false, vec![self.scalar(rels, ty, d, agg), self.scalar(rels, ty, d, agg)]),
            ('t', 0..=1) => Ex::Func(Fun::Std(*self.rng.pick(&[12u32, 13])), false, vec![self.scalar(rels, 't', d, agg)]),
            ('t', 2) if !self.portable => bin(self.scalar(rels, 't', d, agg), 27, self.scalar(rels, 't', d, agg)), // Custom("||") : see `fix_custom`
            (_, 9) => { let n = 1 + self.rng.below(2) as usize; let ws = (0..n).map(|_| (self.cond(rels, d, agg), self.scalar(rels, ty, d, agg))).collect(); let el = if self.rng.chance(2, 3) { Some(Box::new(self.scalar(rels, ty, d, agg))) } else { None }; Ex::Case(ws, el) }
            (_, 10) if agg => { let f = *self.rng.pick(&[0u32, 1, 2, 6, 3]); let a = self.scalar(rels, if f == 6 { ty } else { 'i' }, d, false); Ex::Func(Fun::Std(f), f == 6 && self.rng.chance(1, 3), vec![a]) }
            (_, 11) if d > 0 => Ex::Subq(None, Box::new(Query::Sel(self.scalar_subquery(rels, ty, d)))),
            ('r', _) => Ex::Func(Fun::Std(17), false, vec![self.scalar(rels, 'r', d, agg)]),
            _ if self.portable => bin(self.scalar(rels, ty, d, agg), 10, self.scalar(rels, ty, d, agg)), // CAST type names are not portable
            _ => { let t = if ty == 't' { "text" } else if ty == 'r' { "real" } else { "integer" }; let xt = *self.rng.pick(&['i', 't', 'r']); let x = self.scalar(rels, xt, d, agg); Ex::Func(Fun::Std(11), false, vec![Ex::Bin(Box::new(x), Op::Std(25), Box::new(Ex::Cust(t.into())))]) }
        }
    }
    /// a one-column, at-most-one-row sub-select correlated with `outer`
    fn scalar_subquery(&mut self, outer: &[Rel], ty: char, depth: u32) -> Select {
        let t = self.rng.pick(&TABLES).clone();
        let a = self.alias("s");
        let rel = Rel { alias: a.clone(), cols: t.cols.iter().map(|(c, k)| (c.to_string(), *k)).collect() };
        let mut scope = vec![rel.clone()]; scope.extend_from_slice(outer);
        let f = *self.rng.pick(&[0u32, 1, 6, 2]);
        let inner = self.scalar(&[rel.clone()], if f == 6 { ty } else { 'i' }, 0, false);
        let mut s = Select::default();
        s.selects.push(SelItem { e: Ex::Func(Fun::Std(f), false, vec![inner]), win: WinSel::None, alias: None });
        s.from.push(TRef::Named(TName { parts: vec![t.name.into()], alias: Some(a) }));
        s.wher = Holder::Cond(self.cond(&scope, depth.min(1), false));
        s
    }
    /// boolean expression
    fn pred(&mut self, rels: &[Rel], depth: u32, agg: bool) -> Ex {
        let d = depth.saturating_sub(1);
        let ty = *self.rng.pick(&['i', 'i', 't', 'r']);
        match self.rng.below(if depth == 0 { 8 } else { 14 }) {
            0..=2 => bin(self.scalar(rels, ty, d, agg), *self.rng.pick(&[10u32, 11, 12, 13, 14, 15]), self.scalar(rels, ty, d, agg)),
            3 => bin(self.scalar(rels, ty, d, agg), *self.rng.pick(&[4u32, 5]), Ex::Kw(Kw::Null)),
            4 => if self.rng.chance(1, 5) { // (a, b) IN ((1, 'x'), (2, 'y'))  — `in_tuples`
                       let (a, ta) = self.pick_col(rels, None); let (b, tb) = self.pick_col(rels, None); let n = 1 + self.rng.below(3) as usize;
                       bin(Ex::Tuple(vec![a, b]), *self.rng.pick(&[6u32, 7]), Ex::Tuple((0..n).map(|_| Ex::Vals(vec![self.value(ta), self.value(tb)])).collect()))
                   } else { let n = self.rng.below(4) as usize; let rhs = Ex::Tuple((0..n).map(|_| Ex::Val(self.value(ty))).collect());
                   bin(self.scalar(rels, ty, d, agg), *self.rng.pick(&[6u32, 7]), rhs) },
            5 => { let (x, lo, hi) = (self.scalar(rels, ty, d, agg), self.scalar(rels, ty, d, agg), self.scalar(rels, ty, d, agg)); bin(x, *self.rng.pick(&[8u32, 9]), bin(lo, 0, hi)) }
            6 => { let pat = Ex::Val(val(Value::String(Some(Box::new(self.rng.pick(&["a%", "%b", "img-_", "img!%%", "e!_e", "%"]).to_string())))));
                   let rhs = if self.rng.chance(1, 2) { bin(pat, 26, Ex::Const(val(Value::Char(Some('!'))))) } else { pat };
                   bin(self.scalar(rels, 't', d, agg), *self.rng.pick(&[2u32, 3]), rhs) }
            7 if !self.portable => bin(self.scalar(rels, 't', d, agg), 60, Ex::Val(val(Value::String(Some(Box::new(self.rng.pick(&["a*", "*b", "img-?", "*"]).to_string())))))),
            8 | 9 => bin(self.pred(rels, d, agg), *self.rng.pick(&[0u32, 1]), self.pred(rels, d, agg)),
            10 => Ex::Not(Box::new(self.pred(rels, d, agg))),
            11 if depth > 1 => { let t = self.rng.pick(&TABLES).clone(); let a = self.alias("e");
                   let rel = Rel { alias: a.clone(), cols: t.cols.iter().map(|(c, k)| (c.to_string(), *k)).collect() };
                   let mut scope = vec![rel]; scope.extend_from_slice(rels);
                   let mut s = Select::default(); s.selects.push(SelItem { e: ival(1), win: WinSel::None, alias: None });
                   s.from.push(TRef::Named(TName { parts: vec![t.name.into()], alias: Some(a) })); s.wher = Holder::Cond(self.cond(&scope, 1, false));
                   Ex::Subq(Some(0), Box::new(Query::Sel(s))) }
            12 if depth > 1 => { let (lhs, ty) = self.pick_col(rels, None); let t = self.rng.pick(&TABLES).clone(); let a = self.alias("n");
                   let rel = Rel { alias: a.clone(), cols: t.cols.iter().map(|(c, k)| (c.to_string(), *k)).collect() };
                   let c = self.pick_col(&[rel.clone()], Some(ty)).0;
                   let mut s = Select::default(); s.selects.push(SelItem { e: c, win: WinSel::None, alias: None });
                   s.from.push(TRef::Named(TName { parts: vec![t.name.into()], alias: Some(a) })); s.wher = Holder::Cond(self.cond(&[rel], 1, false));
                   bin(lhs, *self.rng.pick(&[6u32, 7]), Ex::Subq(None, Box::new(Query::Sel(s)))) }
            _ => bin(self.scalar(rels, 'i', d, agg), *self.rng.pick(&[10u32, 12, 13]), self.scalar(rels, 'i', d, agg)),
        }
    }
    fn cond(&mut self, rels: &[Rel], depth: u32, agg: bool) -> Cond {
        let n = match self.rng.below(8) { 0 => 0, 1 | 2 | 3 => 1, 4 | 5 | 6 => 2, _ => 3 };
        let items = (0..n).map(|_| if depth > 0 && self.rng.chance(1, 4) { let mut c = self.cond(rels, depth - 1, agg); if c.items.len() == 1 && !c.neg { c.neg = true; } Item::C(c) } else { Item::E(self.pred(rels, depth, agg)) }).collect();
        Cond { neg: self.rng.chance(1, 6), any: self.rng.chance(1, 3), items }
    }
    fn holder(&mut self, rels: &[Rel], depth: u32, p: u64) -> Holder {
        if !self.rng.chance(p, 10) { return Holder::Empty; }
        if self.rng.chance(1, 5) { let n = 1 + self.rng.below(3) as usize; return Holder::Chain((0..n).map(|_| (self.rng.chance(1, 3), self.pred(rels, depth.min(1), false))).collect()); }
        Holder::Cond(self.cond(rels, depth, false))
    }
    fn order(&mut self, keys: Vec<(Ex, char)>, total: Option<Ex>) -> Vec<OrderItem> {
        let mut out = Vec::new();
        for (e, ty) in keys {
            // a fifth of the keys are IFNULL / COALESCE over the key with fallbacks that may themselves be (typed) NULL values
            let e = if self.rng.chance(1, 5) {
                let mut fallback = |g: &mut Self| if g.rng.chance(1, 3) { Ex::Val(val(match ty { 'i' => Value::Int(None), 'r' => Value::Double(None), _ => Value::String(None) })) } else { Ex::Val(g.value(ty)) };
                if self.rng.chance(1, 2) { let f = fallback(self); Ex::Func(Fun::Std(7), false, vec![e, f]) } else { let (f1, f2) = (fallback(self), fallback(self)); Ex::Func(Fun::Std(5), false, vec![e, f1, f2]) }
            } else { e };
            let kind = if self.rng.chance(1, 6) { let n = 1 + self.rng.below(3) as usize; OrderKind::Field((0..n).map(|_| if ty == 't' && self.rng.chance(1, 2) { val(Value::String(Some(Box::new(self.rng.pick(&["it's", "back\\slash", "q?m", "$1", "two\nlines", "a'b\\"]).to_string())))) } else { self.value(ty) }).collect()) } else if self.rng.chance(1, 2) { OrderKind::Desc } else { OrderKind::Asc };
            let nulls_first = match self.rng.below(4) { 0 => Some(true), 1 => Some(false), _ => None };
            if matches!(kind, OrderKind::Field(_)) && nulls_first.is_some() { self.field_nulls = true; }
            out.push(OrderItem { e, kind, nulls_first });
        }
        if let Some(e) = total { out.push(OrderItem { e, kind: OrderKind::Asc, nulls_first: None }); }
        out
    }
    fn window(&mut self, rels: &[Rel]) -> Window {
        let np = self.rng.below(2) as usize;
        let partition = (0..np).map(|_| self.pick_col(rels, None).0).collect();
        let k = self.pick_col(rels, Some('i'));
        let tie = self.pick_col(&rels[..1], Some('i'));
        let orders = if self.rng.chance(4, 5) { self.order(vec![k], Some(tie.0)) } else { vec![] };
        let b = |g: &mut Gen7, start: bool| match g.rng.below(4) { 0 => if start { Bound::UP } else { Bound::UF }, 1 => Bound::CR, 2 => if start { Bound::P(1 + g.rng.below(2) as u32) } else { Bound::F(1 + g.rng.below(2) as u32) }, _ => if start { Bound::P(0) } else { Bound::F(0) } };
        let frame = if !orders.is_empty() && self.rng.chance(1, 2) { Some(FrameC { rows: true, start: b(self, true), stop: if self.rng.chance(2, 3) { Some(b(self, false)) } else { None } }) } else { None };
        // a framed window is where the position of NULL keys decides the result: half of them order by a column that holds NULLs,
        // with the NULLS option that is NOT the engines' default for the direction (MySQL has to emulate it)
        let mut orders = orders; let mut partition: Vec<Ex> = partition; let mut frame = frame;
        if frame.is_some() && self.rng.chance(1, 2) {
            // .. over the whole relation, as a running aggregate (within a partition by the key itself, or in a one-row frame, the order of the NULLs cannot show)
            partition.clear();
            frame = Some(FrameC { rows: true, start: Bound::UP, stop: if self.rng.chance(1, 2) { Some(Bound::CR) } else { None } });
            let nullable = ["size", "width", "glyph_id", "font_id", "aspect"];
            let key = (0..8).map(|_| self.pick_col(rels, None).0).find(|e| matches!(e, Ex::Col(ColRef::TCol(_, c)) | Ex::Col(ColRef::Col(c)) if nullable.contains(&c.as_str())));
            if let (Some(key), Some(first)) = (key, orders.first_mut()) {
                let desc = self.rng.chance(1, 2);
                *first = OrderItem { e: key, kind: if desc { OrderKind::Desc } else { OrderKind::Asc }, nulls_first: Some(desc) };
            }
        }
        Window { partition, orders, frame }
    }
    /// a FROM item and the relation it brings into scope
    fn from_item(&mut self, depth: u32) -> (TRef, Rel) {
        match self.rng.below(if depth == 0 { 6 } else if self.portable { 8 } else { 9 }) {
            6 | 7 => { // sub-select with aliased output columns
                let (s, cols) = self.select_core(depth - 1, false, false);
                let a = self.alias("q");
                (TRef::Sub(Box::new(s), a.clone()), Rel { alias: a, cols })
            }
            8 => { // VALUES list: columns are named column1, column2 ..
                let w = 1 + self.rng.below(2) as usize; let n = 1 + self.rng.below(3) as usize;
                let tys: Vec<char> = (0..w).map(|_| *self.rng.pick(&['i', 't'])).collect();
                let rows = (0..n).map(|_| tys.iter().map(|t| self.value(*t)).collect()).collect();
                let a = self.alias("v");
                (TRef::Vals(rows, a.clone()), Rel { alias: a, cols: tys.iter().enumerate().map(|(i, t)| (format!("column{}", i + 1), *t)).collect() })
            }
            _ => { let t = self.rng.pick(&TABLES).clone(); let a = self.alias("t");
                (TRef::Named(TName { parts: vec![t.name.into()], alias: Some(a.clone()) }), Rel { alias: a, cols: t.cols.iter().map(|(c, k)| (c.to_string(), *k)).collect() }) }
        }
    }
    /// SELECT without ORDER BY / LIMIT / set operations; returns the statement and its output columns (all aliased)
    fn select_core(&mut self, depth: u32, allow_window: bool, allow_with: bool) -> (Select, Vec<(String, char)>) {
        let mut s = Select::default();
        let (t0, r0) = self.from_item(depth);
        s.from.push(t0);
        let mut rels = vec![r0];
        if self.rng.chance(1, 3) {
            let nj = 1 + self.rng.below(2);
            for _ in 0..nj {
                let (t, r) = self.from_item(depth.min(1));
                let ty = if self.portable { *self.rng.pick(&[0u32, 2, 3, 3, 4]) } else { *self.rng.pick(&[0u32, 2, 3, 3, 1, 4, 5]) };
                let mut scope = rels.clone(); scope.push(r.clone());
                let on = if ty == 1 { Cond { neg: false, any: false, items: vec![] } } else {
                    let (a, k) = self.pick_col(&rels, Some('i')); let b = self.pick_col(&[r.clone()], Some(k)).0;
                    let mut c = Cond { neg: false, any: false, items: vec![Item::E(bin(a, 10, b))] };
                    if self.rng.chance(1, 3) { c.items.push(Item::E(self.pred(&scope, 0, false))); }
                    c };
                s.joins.push(Join { ty, lateral: false, t, on: Holder::Cond(on) });
                rels.push(r);
            }
        }
        if allow_with && depth > 0 && self.rng.chance(1, 6) {
            let (w, r) = self.cte(depth - 1);
            let a = self.alias("c");
            s.joins.push(Join { ty: 1, lateral: false, t: TRef::Named(TName { parts: vec![r.alias.clone()], alias: Some(a.clone()) }), on: Holder::Cond(Cond { neg: false, any: false, items: vec![] }) });
            rels.push(Rel { alias: a, cols: r.cols.clone() });
            s.with = Some(w);
        }
        s.wher = self.holder(&rels, depth.min(2), 6);
        let grouped = self.rng.chance(1, 4);
        let mut out = Vec::new();
        if grouped {
            let ng = 1 + self.rng.below(2) as usize;
            let keys: Vec<(Ex, char)> = (0..ng).map(|_| self.pick_col(&rels, None)).collect();
            s.groups = keys.iter().map(|k| k.0.clone()).collect();
            for (k, t) in &keys { let a = self.alias("g"); s.selects.push(SelItem { e: k.clone(), win: WinSel::None, alias: Some(a.clone()) }); out.push((a, *t)); }
            let na = 1 + self.rng.below(2);
            for _ in 0..na { let f = *self.rng.pick(&[0u32, 1, 2, 6, 3]); let arg = self.pick_col(&rels, Some('i')).0; let a = self.alias("a");
                s.selects.push(SelItem { e: Ex::Func(Fun::Std(f), f == 6 && self.rng.chance(1, 3), vec![arg]), win: WinSel::None, alias: Some(a.clone()) }); out.push((a, 'i')); }
            if self.rng.chance(1, 2) { let arg = self.pick_col(&rels, Some('i')).0; let f = *self.rng.pick(&[6u32, 2, 0]);
                s.having = Holder::Cond(Cond { neg: false, any: false, items: vec![Item::E(bin(Ex::Func(Fun::Std(f), false, vec![arg]), *self.rng.pick(&[12u32, 13, 15]), ival(self.rng.below(30) as i64)))] }); }
        } else if self.rng.chance(1, 12) {
            // aggregate without GROUP BY, optionally with HAVING
            let arg = self.pick_col(&rels, Some('i')).0; let a = self.alias("a");
            s.selects.push(SelItem { e: Ex::Func(Fun::Std(*self.rng.pick(&[6u32, 2, 0, 1])), false, vec![arg.clone()]), win: WinSel::None, alias: Some(a.clone()) }); out.push((a, 'i'));
            if self.rng.chance(1, 2) { s.having = Holder::Cond(Cond { neg: false, any: false, items: vec![Item::E(bin(Ex::Func(Fun::Std(6), false, vec![arg]), *self.rng.pick(&[12u32, 13]), ival(self.rng.below(12) as i64)))] }); }
        } else {
            let n = 1 + self.rng.below(3) as usize;
            for _ in 0..n {
                let ty = *self.rng.pick(&['i', 'i', 't', 'r']);
                let e = self.scalar(&rels, ty, depth.min(2), false);
                let win = if allow_window && self.rng.chance(1, 6) { if !self.portable && self.rng.chance(1, 8) { self.named_window = true; WinSel::Name("w".into()) } else { WinSel::Query(self.window(&rels)) } } else { WinSel::None };
                let e = if matches!(win, WinSel::None) { e } else { Ex::Func(Fun::Std(*self.rng.pick(&[2u32, 0, 1, 6])), false, vec![self.pick_col(&rels, Some('i')).0]) };
                let a = self.alias("o");
                s.selects.push(SelItem { e, win, alias: Some(a.clone()) }); out.push((a, ty));
            }
            // a byte-string value among the items: its literal (x'..' / '\x..') must denote the bytes that are bound
            if self.rng.chance(1, 8) { let a = self.alias("o"); s.selects.push(SelItem { e: Ex::Val(self.value('y')), win: WinSel::None, alias: Some(a.clone()) }); out.push((a, 'y')); }
            // .. and a JSON document whose text needs the string escaping of every backend (quotes, backslashes, control characters)
            if self.rng.chance(1, 8) { let a = self.alias("o"); let doc = match self.rng.below(4) { 0 => serde_json::json!({"title": "the \"A\" glyph", "n": 1}), 1 => serde_json::json!({"path": "c:\\fonts\\a", "it": "it's"}), 2 => serde_json::json!(["two\nlines", "tab\there", null]), _ => serde_json::json!({"k": [1, 2.5, "x"], "q": "?"}) };
                s.selects.push(SelItem { e: Ex::Val(val(Value::Json(Some(Box::new(doc))))), win: WinSel::None, alias: Some(a.clone()) }); out.push((a, 'j')); }
            if self.named_window && s.window.is_none() && s.selects.iter().any(|x| matches!(x.win, WinSel::Name(_))) { s.window = Some(("w".into(), self.window(&rels))); }
            if self.rng.chance(1, 8) { s.distinct = Some(Distinct::Distinct); }
        }
        (s, out)
    }
    /// a full SELECT: core + set operations + ORDER BY (total) + LIMIT / OFFSET
    pub fn select(&mut self, depth: u32) -> Select {
        let (mut s, out) = self.select_core(depth, true, true);
        if depth > 0 && self.rng.chance(1, 5) && s.window.is_none() {
            let n = 1 + self.rng.below(2);
            for _ in 0..n {
                // same number of columns
                let mut u = loop { let (mut u, o) = self.select_core(depth - 1, false, false); if o.len() >= out.len() { u.selects.truncate(out.len()); break u; } };
                u.with = None;
                s.unions.push((self.rng.below(4) as u32, u));
            }
        }
        if self.rng.chance(1, 2) {
            // ORDER BY over output columns (valid in compound selects as well); made total by listing every output column
            let mut keys: Vec<(Ex, char)> = Vec::new();
            let k = 1 + self.rng.below(out.len() as u64) as usize;
            for (a, t) in out.iter().take(k) { keys.push((Ex::Col(ColRef::Col(a.clone())), *t)); }
            let mut ord = self.order(keys, None);
            if !s.unions.is_empty() { for o in ord.iter_mut() { if matches!(o.kind, OrderKind::Field(_)) { o.kind = OrderKind::Asc; }
                // MySQL's NULLS emulation is an expression key, which a compound SELECT's ORDER BY cannot carry on SQLite
                if self.portable { o.nulls_first = None; } } }
            for (a, _) in out.iter().skip(k) { ord.push(OrderItem { e: Ex::Col(ColRef::Col(a.clone())), kind: OrderKind::Asc, nulls_first: None }); }
            s.orders = ord;
            if self.rng.chance(1, 2) { s.limit = Some(self.rng.below(6)); if self.rng.chance(1, 3) { s.offset = Some(self.rng.below(4)); } }
        }
        s
    }
    /// a CTE (possibly recursive) and the relation it defines
    fn cte(&mut self, depth: u32) -> (WithC, Rel) {
        let name = self.alias("cte");
        if self.rng.chance(1, 3) {
            // recursive counter
            let n = 2 + self.rng.below(4) as i64;
            let mut base = Select::default(); base.selects.push(SelItem { e: ival(1), win: WinSel::None, alias: None });
            let mut step = Select::default(); step.selects.push(SelItem { e: bin(Ex::Col(ColRef::Col("n".into())), 16, ival(1)), win: WinSel::None, alias: None });
            step.from.push(TRef::Named(TName { parts: vec![name.clone()], alias: None }));
            step.wher = Holder::Cond(Cond { neg: false, any: false, items: vec![Item::E(bin(Ex::Col(ColRef::Col("n".into())), 12, ival(n)))] });
            base.unions.push((3, step));
            (WithC { recursive: true, search: None, cycle: None, ctes: vec![Cte { name: name.clone(), cols: vec!["n".into()], mat: None, q: Query::Sel(base) }] }, Rel { alias: name, cols: vec![("n".into(), 'i')] })
        } else {
            let (s, out) = self.select_core(depth, false, false);
            let cols: Vec<String> = if self.rng.chance(1, 2) { out.iter().map(|_| self.alias("k")).collect() } else { vec![] };
            let rel_cols = if cols.is_empty() { out.clone() } else { cols.iter().cloned().zip(out.iter().map(|o| o.1)).collect() };
            (WithC { recursive: false, search: None, cycle: None, ctes: vec![Cte { name: name.clone(), cols, mat: if self.portable { None } else { match self.rng.below(4) { 0 => Some(true), 1 => Some(false), _ => None } }, q: Query::Sel(s) }] }, Rel { alias: name, cols: rel_cols })
        }
    }
    fn returning(&mut self, t: &Tbl) -> Ret {
        match self.rng.below(6) { 0 => Ret::All, 1 => Ret::Cols(vec![ColRef::Col(t.cols[0].0.into()), ColRef::Col(self.rng.pick(t.cols).0.into())]),
            2 => { let r = Rel { alias: t.name.into(), cols: t.cols.iter().map(|(c, k)| (c.to_string(), *k)).collect() }; Ret::Exprs(vec![Ex::Col(ColRef::Col("id".into())), self.scalar(&[r], 'i', 1, false)]) } _ => Ret::None }
    }
    fn table_rel(t: &Tbl) -> Rel { Rel { alias: t.name.into(), cols: t.cols.iter().map(|(c, k)| (c.to_string(), *k)).collect() } }
    pub fn insert(&mut self, depth: u32) -> Insert {
        let t = self.rng.pick(&TABLES).clone();
        let mut with = None;
        let ncols = 2 + self.rng.below((t.cols.len() - 2) as u64) as usize;
        let start = if self.rng.chance(1, 2) { 0 } else { 1 };
        let cols: Vec<(&str, char)> = t.cols[start..].iter().take(ncols).cloned().collect();
        let source = match self.rng.below(10) {
            0 => Source::None,
            1 | 2 if depth > 0 => { // INSERT .. SELECT with the right number of columns
                let src = self.rng.pick(&TABLES).clone(); let a = self.alias("t");
                let rel = Rel { alias: a.clone(), cols: src.cols.iter().map(|(c, k)| (c.to_string(), *k)).collect() };
                let mut q = Select::default();
                for (_, ty) in &cols { let e = if start == 0 && q.selects.is_empty() { bin(col(&a, "id"), 16, ival(100)) } else { self.scalar(&[rel.clone()], *ty, 1, false) }; q.selects.push(SelItem { e, win: WinSel::None, alias: None }); }
                q.from.push(TRef::Named(TName { parts: vec![src.name.into()], alias: Some(a) }));
                q.wher = Holder::Cond(self.cond(&[rel], 1, false));
                if self.rng.chance(1, 4) { let (w, r) = self.cte(0); q.joins.push(Join { ty: 1, lateral: false, t: TRef::Named(TName { parts: vec![r.alias.clone()], alias: None }), on: Holder::Cond(Cond { neg: false, any: false, items: vec![] }) }); with = Some(w); }
                Source::Select(Box::new(q))
            }
            _ => { let nr = 1 + self.rng.below(3) as usize;
                   Source::Values((0..nr).map(|r| cols.iter().map(|(c, ty)| if *c == "id" { ival(100 + r as i64 + self.rng.below(2) as i64 * 50) } else if self.rng.chance(1, 5) { self.scalar(&[], *ty, 1, false) } else { Ex::Val(self.value(*ty)) }).collect()).collect()) }
        };
        let has_source = !matches!(source, Source::None);
        let on_conflict = if has_source && self.rng.chance(1, 2) {
            // a conflict is provoked by re-using an existing key now and then (see `columns` below)
            let targets: Vec<Target> = match (t.name, self.rng.below(3)) { ("font", 0) => vec![Target::Col("name".into())], ("chr", 0) => vec![Target::Col("font_id".into()), Target::Col("code".into())], (_, 1) => vec![], _ => vec![Target::Col("id".into())] };
            let rel = Self::table_rel(&t);
            let action = match self.rng.below(5) { 0 => Action::Nothing(vec![]), 1 if !targets.is_empty() => Action::Update(vec![Upd::Col(cols[cols.len() - 1].0.into())]),
                2 if !targets.is_empty() => { let (c, ty) = cols[cols.len() - 1]; Action::Update(vec![Upd::Expr(c.into(), self.scalar(&[rel.clone()], ty, 1, false)), Upd::Col(cols[1].0.into())]) }
                _ => Action::Nothing(vec![]) };
            let action_where = if matches!(action, Action::Update(_)) && self.rng.chance(1, 3) { Holder::Cond(self.cond(&[rel], 0, false)) } else { Holder::Empty };
            Some(OnC { targets, target_where: Holder::Empty, action, action_where })
        } else { None };
        let mut source = source;
        // provoke key conflicts: with ON CONFLICT (or OR REPLACE) present, re-use existing ids / unique keys in the first row
        let replace = on_conflict.is_none() && self.rng.chance(1, 6);
        if on_conflict.is_some() || replace {
            if let Source::Values(rows) = &mut source { for (i, (c, _)) in cols.iter().enumerate() { if *c == "id" && self.rng.chance(2, 3) { rows[0][i] = ival(1 + self.rng.below(4) as i64); } if t.name == "font" && *c == "name" && self.rng.chance(1, 2) { rows[0][i] = Ex::Val(val(Value::String(Some(Box::new("serif".into()))))); } } }
        }
        Insert { with, replace, table: Some(TRef::Named(TName { parts: vec![t.name.into()], alias: None })), columns: if has_source { cols.iter().map(|c| c.0.to_string()).collect() } else { vec![] }, source,
            on_conflict, returning: self.returning(&t), default_values: if !has_source || self.rng.chance(1, 10) { Some(1) } else { None } }
    }
    pub fn update(&mut self, depth: u32) -> Update {
        let t = self.rng.pick(&TABLES).clone();
        let mut rel = Self::table_rel(&t);
        // the updated table under an alias (then only the alias is in scope)
        let alias = if self.rng.chance(1, 3) { Some("tg".to_string()) } else { None };
        if let Some(x) = &alias { rel.alias = x.clone(); }
        let mut rels = vec![rel.clone()];
        let mut from = vec![];
        if self.rng.chance(1, 4) { let (f, r) = self.from_item(depth.min(1)); from.push(f); rels.push(r); }
        let n = 1 + self.rng.below(2) as usize;
        let sets = (0..n).map(|_| { let (c, ty) = *self.rng.pick(&t.cols[1..]); (c.to_string(), self.scalar(&rels, ty, depth.min(2), false)) }).collect();
        let mut wher = self.holder(&rels, depth.min(2), 8);
        if !from.is_empty() { // keep UPDATE .. FROM deterministic: join on a key of the second relation
            let k = bin(col(&rel.alias, "id"), 10, self.pick_col(&rels[1..], Some('i')).0);
            wher = Holder::Cond(Cond { neg: false, any: false, items: vec![Item::E(k), Item::E(bin(ival(1), 10, ival(1)))] });
            if self.rng.chance(1, 2) { if let Holder::Cond(c) = &mut wher { c.items[1] = Item::E(self.pred(&rels, 1, false)); } }
        }
        let limited = from.is_empty() && self.rng.chance(1, 3);
        let orders = if limited || (from.is_empty() && self.rng.chance(1, 6)) { let k = self.pick_col(&[rel.clone()], None); self.order(vec![k], Some(Ex::Col(ColRef::Col("id".into())))) } else { vec![] };
        Update { with: None, table: Some(TRef::Named(TName { parts: vec![t.name.into()], alias })), sets, wher, orders, limit: if limited { Some(self.rng.below(4)) } else { None }, returning: self.returning(&t), from }
    }
    pub fn delete(&mut self, depth: u32) -> Delete {
        let t = self.rng.pick(&TABLES).clone();
        let rel = Self::table_rel(&t);
        let limited = self.rng.chance(1, 3);
        let orders = if limited || self.rng.chance(1, 6) { let k = self.pick_col(&[rel.clone()], None); self.order(vec![k], Some(Ex::Col(ColRef::Col("id".into())))) } else { vec![] };
        let mut with = None;
        let mut wher = self.holder(&[rel.clone()], depth.min(2), 8);
        if depth > 0 && self.rng.chance(1, 6) {
            let (w, r) = self.cte(0);
            let mut s = Select::default(); s.selects.push(SelItem { e: Ex::Col(ColRef::Col(r.cols[0].0.clone())), win: WinSel::None, alias: None }); s.from.push(TRef::Named(TName { parts: vec![r.alias.clone()], alias: None }));
            wher = Holder::Cond(Cond { neg: false, any: false, items: vec![Item::E(bin(col(t.name, "id"), 6, Ex::Subq(None, Box::new(Query::Sel(s)))))] });
            with = Some(w);
        }
        Delete { with, table: Some(TRef::Named(TName { parts: vec![t.name.into()], alias: None })), wher, orders, limit: if limited { Some(self.rng.below(4)) } else { None }, returning: self.returning(&t) }
    }
    pub fn statement(&mut self, depth: u32) -> Query {
        match self.rng.below(12) {
            0..=4 => Query::Sel(self.select(depth)), 5 | 6 | 7 => Query::Ins(self.insert(depth)), 8 | 9 => Query::Upd(self.update(depth)), 10 => Query::Del(self.delete(depth)),
            _ => { let (w, r) = self.cte(depth.saturating_sub(1)); let a = self.alias("t");
                   let mut s = Select::default(); s.selects.push(SelItem { e: Ex::Col(ColRef::Star), win: WinSel::None, alias: None });
                   s.from.push(TRef::Named(TName { parts: vec![r.alias.clone()], alias: Some(a.clone()) }));
                   s.orders = r.cols.iter().map(|c| OrderItem { e: col(&a, &c.0), kind: OrderKind::Asc, nulls_first: None }).collect();
                   Query::With(w, Box::new(Query::Sel(s))) }
        }
    }
}

/// op 27 in generated scalars stands for the custom operator `||`
fn fix_custom(q: &mut Query) {
    fn ex(e: &mut Ex) {
        match e {
            Ex::Bin(l, o, r) => { if *o == Op::Std(27) { *o = Op::Custom("||"); } ex(l); ex(r); }
            Ex::Tuple(es) | Ex::Func(_, _, es) | Ex::CustW(_, es) => es.iter_mut().for_each(ex),
            Ex::Not(x) | Ex::Enum(_, x) => ex(x),
            Ex::Subq(_, q) => fix_custom(q),
            Ex::Case(ws, el) => { for (c, x) in ws.iter_mut() { cond(c); ex(x); } if let Some(x) = el { ex(x); } }
            _ => {}
        }
    }
    fn cond(c: &mut Cond) { for i in c.items.iter_mut() { match i { Item::C(c) => cond(c), Item::E(e) => ex(e) } } }
    fn holder(h: &mut Holder) { match h { Holder::Empty => {} Holder::Chain(l) => l.iter_mut().for_each(|(_, e)| ex(e)), Holder::Cond(c) => cond(c) } }
    fn orders(o: &mut Vec<OrderItem>) { o.iter_mut().for_each(|x| ex(&mut x.e)); }
    fn window(w: &mut Window) { w.partition.iter_mut().for_each(ex); orders(&mut w.orders); }
    fn tref(t: &mut TRef) { match t { TRef::Sub(s, _) => sel(s), TRef::Func(_, _, a, _) => a.iter_mut().for_each(ex), _ => {} } }
    fn with(w: &mut WithC) { for c in w.ctes.iter_mut() { fix_custom(&mut c.q); } }
    fn ret(r: &mut Ret) { if let Ret::Exprs(es) = r { es.iter_mut().for_each(ex); } }
    fn sel(s: &mut Select) {
        if let Some(w) = &mut s.with { with(w); }
        for it in s.selects.iter_mut() { ex(&mut it.e); if let WinSel::Query(w) = &mut it.win { window(w); } }
        s.from.iter_mut().for_each(tref);
        for j in s.joins.iter_mut() { tref(&mut j.t); holder(&mut j.on); }
        holder(&mut s.wher); s.groups.iter_mut().for_each(ex); holder(&mut s.having);
        for (_, u) in s.unions.iter_mut() { sel(u); }
        orders(&mut s.orders);
        if let Some((_, w)) = &mut s.window { window(w); }
    }
    match q {
        Query::Sel(s) => sel(s),
        Query::Ins(i) => { if let Some(w) = &mut i.with { with(w); } match &mut i.source { Source::Values(rows) => rows.iter_mut().for_each(|r| r.iter_mut().for_each(ex)), Source::Select(s) => sel(s), Source::None => {} }
            if let Some(oc) = &mut i.on_conflict { holder(&mut oc.target_where); holder(&mut oc.action_where); if let Action::Update(us) = &mut oc.action { for u in us.iter_mut() { if let Upd::Expr(_, e) = u { ex(e); } } } } ret(&mut i.returning); }
        Query::Upd(u) => { if let Some(w) = &mut u.with { with(w); } u.sets.iter_mut().for_each(|(_, e)| ex(e)); holder(&mut u.wher); orders(&mut u.orders); u.from.iter_mut().for_each(tref); ret(&mut u.returning); }
        Query::Del(d) => { if let Some(w) = &mut d.with { with(w); } holder(&mut d.wher); orders(&mut d.orders); ret(&mut d.returning); }
        Query::With(w, q) => { with(w); fix_custom(q); }
    }
}

/// the explicit reference rendering for SQLite (`explicit.rs`)
pub fn xq(q: &Query) -> String { crate::explicit::render(B::Sqlite, q) }

fn bind_json(v: &Value) -> serde_json::Value {
    match crate::stmt::payload_of(v) {
        Some(Pay::Null) | None => serde_json::json!({"t": "null"}), Some(Pay::Bool(b)) => serde_json::json!({"t": "int", "v": b as i64}),
        Some(Pay::Int(i)) => serde_json::json!({"t": "int", "v": i.to_string()}), Some(Pay::Num(t)) => serde_json::json!({"t": "real", "v": t}),
        Some(Pay::Str(s)) | Some(Pay::Quoted(s)) => serde_json::json!({"t": "text", "v": s}), Some(Pay::Bytes(b)) => serde_json::json!({"t": "blob", "v": hex(&b)}),
    }
}

pub fn run(ctx: &mut Ctx) {
    ctx.rule = "statements over a fixed three-table schema (NULLs, duplicates, unique keys) generated from the SQLite-supported feature set (DISTINCT, expressions, aliases, FROM table / sub-query / VALUES, all join types, WHERE, GROUP BY, HAVING with and without GROUP BY, set-operation chains, ORDER BY with NULLS FIRST / LAST and FIELD order, LIMIT / OFFSET, window functions with frames, recursive and materialized CTEs, INSERT VALUES / SELECT / DEFAULT VALUES, OR REPLACE, ON CONFLICT variants, UPDATE .. FROM, ORDER BY / LIMIT on UPDATE / DELETE, RETURNING); each is rendered inline and parameterised by the crate and, independently, fully explicitly; the engine stage executes the three on SQLite and compares rows, RETURNING rows and table contents; the same recipes are compared with the Lean statement model".into();
    let n = if ctx.tier_thorough { 20000 } else { 2500 };
    let dir = std::env::var("VERIF_WORK").unwrap_or_else(|_| "/verif/work".into());
    let _ = std::fs::create_dir_all(&dir);
    let path = format!("{dir}/C07_cases.jsonl");
    let mut out = std::io::BufWriter::new(std::fs::File::create(&path).expect("cannot write cases file"));
    writeln!(out, "{}", serde_json::json!({"schema": SCHEMA})).unwrap();
    let mut rng = ctx.rng.fork();
    for _ in 0..n {
        let depth = match rng.below(10) { 0..=2 => 1, 3..=7 => 2, _ => 3 };
        let mut g = Gen7::new(rng.fork());
        let mut q = g.statement(depth);
        fix_custom(&mut q);
        let recipe = q.sexp();
        let Some(real) = catch(|| q.real()) else { ctx.count("build.panic"); continue };
        let r = crate::c01::render(&real, B::Sqlite);
        let sq = recipe.clone();
        ctx.case_norm(format!("stmt sqlite {recipe}"), crate::c01::expect_line(&r), true, &move || sq.clone(), crate::c01::strip_flags(false));
        let Some(r) = r else { ctx.count("render.panic"); continue };
        ctx.count(match &q { Query::Sel(_) => "kind.select", Query::Ins(_) => "kind.insert", Query::Upd(_) => "kind.update", Query::Del(_) => "kind.delete", Query::With(_, _) => "kind.with" });
        writeln!(out, "{}", serde_json::json!({"recipe": recipe, "inline": r.inline, "sql": r.sql, "values": r.values.iter().map(bind_json).collect::<Vec<_>>(), "explicit": xq(&q),
            "class": if g.named_window { Some("C07.named_window_clause") } else { None }})).unwrap();
    }
    // ---- conditions built by a history of calls: WHERE must mean the conjunction of everything that was added (engine-decided here, C06 has the theorem)
    let hn = if ctx.tier_thorough { 4000 } else { 500 };
    for _ in 0..hn {
        let mut g = Gen7::new(rng.fork());
        let t = g.rng.pick(&TABLES).clone();
        let rel = Rel { alias: t.name.to_string(), cols: t.cols.iter().map(|(c, k)| (c.to_string(), *k)).collect() };
        let calls = 2 + g.rng.below(3) as usize;
        let chain = g.rng.chance(1, 3);
        // each call: an expression (and_where) or a condition tree (cond_where), possibly an empty `any` (FALSE) / `all` (TRUE), possibly negated
        let mut terms: Vec<(Option<Ex>, Option<Cond>)> = Vec::new();
        for _ in 0..calls {
            if chain { terms.push((Some(g.pred(&[rel.clone()], 1, false)), None)); }
            else {
                let c = match g.rng.below(6) { 0 => Cond { neg: false, any: true, items: vec![] }, 1 => Cond { neg: g.rng.chance(1, 2), any: false, items: vec![] }, _ => g.cond(&[rel.clone()], 1, false) };
                terms.push((None, Some(c)));
            }
        }
        let kind = g.rng.below(3);
        let setcol = t.cols.iter().rev().find(|(c, k)| *k == 'i' && *c != "id").map(|(c, _)| *c).unwrap_or("id");
        let apply = |w: &mut dyn FnMut(Option<sea_query::SimpleExpr>, Option<sea_query::Condition>)| { for (e, c) in &terms { match (e, c) { (Some(e), _) => w(Some(e.build()), None), (_, Some(c)) => w(None, Some(c.build())), _ => {} } } };
        let built: Option<(String, String, sea_query::Values)> = catch(|| match kind {
            0 => { let mut s = sea_query::Query::select(); s.column(sea_query::Alias::new("id")).from(sea_query::Alias::new(t.name)); apply(&mut |e, c| { if let Some(e) = e { s.and_where(e); } if let Some(c) = c { s.cond_where(c); } }); s.order_by(sea_query::Alias::new("id"), sea_query::Order::Asc);
                   let (sql, v) = s.build(sea_query::SqliteQueryBuilder); (s.to_string(sea_query::SqliteQueryBuilder), sql, v) }
            1 => { let mut s = sea_query::Query::update(); s.table(sea_query::Alias::new(t.name)).value(sea_query::Alias::new(setcol), 77); apply(&mut |e, c| { if let Some(e) = e { s.and_where(e); } if let Some(c) = c { s.cond_where(c); } });
                   let (sql, v) = s.build(sea_query::SqliteQueryBuilder); (s.to_string(sea_query::SqliteQueryBuilder), sql, v) }
            _ => { let mut s = sea_query::Query::delete(); s.from_table(sea_query::Alias::new(t.name)); apply(&mut |e, c| { if let Some(e) = e { s.and_where(e); } if let Some(c) = c { s.cond_where(c); } });
                   let (sql, v) = s.build(sea_query::SqliteQueryBuilder); (s.to_string(sea_query::SqliteQueryBuilder), sql, v) }
        });
        let Some((inline, sql, values)) = built else { ctx.count("history.panic"); continue };
        let conj = terms.iter().map(|(e, c)| match (e, c) { (Some(e), _) => format!("({})", crate::explicit::ex_sql(B::Sqlite, e)), (_, Some(c)) => crate::explicit::cond_sql(B::Sqlite, c), _ => "(TRUE)".into() }).collect::<Vec<_>>().join(" AND ");
        let qt = format!("\"{}\"", t.name);
        let explicit = match kind { 0 => format!("SELECT \"id\" FROM {qt} WHERE {conj} ORDER BY \"id\" ASC"), 1 => format!("UPDATE {qt} SET \"{setcol}\" = 77 WHERE {conj}"), _ => format!("DELETE FROM {qt} WHERE {conj}") };
        let recipe = format!("history {} {} [{}]", ["select", "update", "delete"][kind as usize], if chain { "and_where" } else { "cond_where" }, terms.iter().map(|(e, c)| match (e, c) { (Some(e), _) => e.sexp(), (_, Some(c)) => c.sexp(), _ => String::new() }).collect::<Vec<_>>().join(" ; "));
        ctx.eval_only(&recipe, true);
        ctx.count("kind.history");
        writeln!(out, "{}", serde_json::json!({"recipe": recipe, "inline": inline, "sql": sql, "values": values.0.iter().map(bind_json).collect::<Vec<_>>(), "explicit": explicit, "class": serde_json::Value::Null})).unwrap();
    }
    out.flush().unwrap();
    ctx.notes.push(format!("engine cases written to {path}"));
    // ---- the convenience methods of the builders build what their general forms build
    crate::api::run(ctx);
}
