//! C16: tokenizer — differential against the Lean model + implementation-level oracle.
use crate::*;
use sea_query::{Token, Tokenizer};

fn kind_tag(t: &Token) -> &'static str {
    match t {
        Token::Quoted(_) => "q",
        Token::Unquoted(_) => "u",
        Token::Space(_) => "s",
        Token::Punctuation(_) => "p",
    }
}

/// run the real tokenizer with a step guard (a token stream longer than the input means
/// some step consumed nothing)
fn real_tokens(s: &str) -> Option<(Vec<Token>, bool)> {
    let n = s.chars().count();
    let s2 = s.to_string();
    catch(move || {
        let mut it = Tokenizer::new(&s2).iter();
        let mut out = Vec::new();
        let mut stuck = false;
        loop {
            match it.next() {
                Some(t) => out.push(t),
                None => break,
            }
            if out.len() > n + 1 { stuck = true; break; }
        }
        (out, stuck)
    })
}

fn alphabetic_of(s: &str) -> String {
    let mut v: Vec<char> = s.chars().filter(|c| c.is_alphabetic()).collect();
    v.sort();
    v.dedup();
    v.into_iter().collect()
}

fn check_one(ctx: &mut Ctx, s: &str) {
    let toks = real_tokens(s);
    let expect = match &toks {
        None => "panic".to_string(),
        Some((ts, stuck)) => {
            let body: Vec<String> = ts.iter().map(|t| format!("{}:{}", kind_tag(t), hex(t.as_str().as_bytes()))).collect();
            let concat: String = ts.iter().map(|t| t.as_str()).collect();
            let complete = !*stuck && concat.len() == s.len();
            format!("{} {}", if complete { "toks" } else { "stuck" }, body.join(" "))
        }
    };
    let line = format!("tok {} {}", hs(s), hs(&alphabetic_of(s)));
    let nontrivial = s.chars().count() >= 2;
    let sc = s.to_string();
    ctx.case(line, expect, nontrivial, &|| format!("{:?}", sc));
    // oracle: the property on the real crate
    match toks {
        None => ctx.oracle_fail("tokenizer panicked", serde_json::json!({"input": s})),
        Some((ts, stuck)) => {
            if stuck {
                ctx.oracle_fail("tokenizer does not make progress (more tokens than characters)", serde_json::json!({"input": s}));
                return;
            }
            let concat: String = ts.iter().map(|t| t.as_str()).collect();
            if concat != s {
                ctx.oracle_fail("concatenated tokens differ from the input", serde_json::json!({"input": s, "concat": concat}));
            }
            if ts.iter().any(|t| t.as_str().is_empty()) {
                ctx.oracle_fail("empty token", serde_json::json!({"input": s}));
            }
            for t in &ts {
                ctx.count(match t { Token::Quoted(_) => "tok.quoted", Token::Unquoted(_) => "tok.unquoted", Token::Space(_) => "tok.space", Token::Punctuation(_) => "tok.punct" });
            }
        }
    }
}

/// independent construction of quoted text: units are plain chars, doubled delimiters,
/// backslash escapes. Returns (text including delimiters, decoded-as-unquote-defines).
fn gen_quoted(r: &mut SplitMix64) -> (String, String, char) {
    let (op, cl, dbl) = *r.pick(&[('\'', '\'', true), ('"', '"', true), ('`', '`', true), ('[', ']', false)]);
    let mut text = String::new();
    let mut dec = String::new();
    text.push(op);
    let n = r.below(8);
    for _ in 0..n {
        match r.below(6) {
            0 if dbl => { text.push(cl); text.push(cl); dec.push(cl); }
            1 => {
                let c = if r.chance(1, 2) { cl } else { random_char(r) };
                text.push('\\'); text.push(c); dec.push('\\'); dec.push(c);
            }
            2 => { let c = *r.pick(&['?', '$', ' ', '1', 'a', op]); if c != cl && c != '\\' { text.push(c); dec.push(c); } }
            _ => { let c = random_char(r); if c != cl && c != '\\' { text.push(c); dec.push(c); } }
        }
    }
    text.push(cl);
    (text, dec, cl)
}

fn check_quoted(ctx: &mut Ctx) {
    let mut r = ctx.rng.fork();
    let (q, dec, cl) = gen_quoted(&mut r);
    let mut post = random_string(&mut r, 6);
    if post.starts_with(cl) { post.insert(0, ' '); }
    let input = format!("{q}{post}");
    check_one(ctx, &input);
    ctx.count("quoted.structured");
    if let Some((ts, _)) = real_tokens(&input) {
        let first_ok = matches!(ts.first(), Some(Token::Quoted(t)) if *t == q);
        if !first_ok {
            ctx.oracle_fail("quoted text is not kept as one Quoted token", serde_json::json!({"input": input, "quoted": q, "first_token": ts.first().map(|t| t.as_str().to_string())}));
        } else {
            let t = &ts[0];
            let un = catch(move || Token::Quoted(q.clone()).unquote());
            match un {
                Some(Some(u)) if u == dec => {}
                other => ctx.oracle_fail("unquote differs from the decoded content", serde_json::json!({"token": t.as_str(), "expected": dec, "got": format!("{:?}", other)})),
            }
            let alpha = alphabetic_of(t.as_str());
            let exp = Token::Quoted(t.as_str().to_string()).unquote().unwrap_or_default();
            let line = format!("unq {} {}", hs(t.as_str()), hs(&alpha));
            let tt = t.as_str().to_string();
            ctx.case(line, format!("ok {}", hs(&exp)), true, &|| format!("unquote {:?}", tt));
        }
        // marks inside the quoted span never become punctuation
        let inside_marks = ts.iter().skip(1).take(0).count(); // (first token covers the span)
        let _ = inside_marks;
    }
}

pub const ALPHABET: [char; 14] = ['a', '1', '_', '$', ' ', '\'', '"', '`', '[', ']', '\\', '?', 'é', '\u{00A0}'];

pub const SQL_ALPHABET: [char; 13] = ['/', '*', '-', '#', '\n', ';', ':', '.', '\'', '$', 'x', ' ', '\0'];
const SQL_CORPUS: &[&str] = &[
    "-- c\nSELECT 1", "SELECT 1 -- c", "/* c */ SELECT ?", "/*/*", "/* a /* b */ c */ ?", "/*/", "/* ' */ ?", "-- ' \n ?", "# c\n?", "a;b;", "$$a?$$", "$t$ ? $t$ $1", "E'a\\'b' ?", "x'AB' X'cd'",
    "N'a' U&'b'", "1e5 1.5e-3 .5", "a.b.c", "a::int", "a->>'k' #>> ?", "\0SELECT", "a\0b", "'a\0?' = ?", "\u{feff}SELECT", "SELECT\u{feff}", "\u{2028}?\u{2029}", "a\u{0301}b", "\u{1F600}?\u{10FFFF}",
];
const CORPUS: &[&str] = &[
    "", "SELECT * FROM `character`", "SELECT * FROM `character` WHERE id = ?",
    "SELECT * FROM \"character\" WHERE id = $1", "SELECT * FROM [character]",
    "SELECT ? ?? ? FROM a$b c_d", "'a''b' ''", "'a\\'b' ?", "\"a\\\"?\" $1", "`a``b`?", "[a]]?",
    "'unterminated ? ", "\\", "'", "''", "'''", "a'b'c", "1a _a $1 a_1$", "é\u{00A0}ü ß", "\t\r\n ",
];

pub fn run(ctx: &mut Ctx) {
    let max_len = if ctx.tier_thorough { 6 } else { 5 };
    ctx.rule = format!(
        "corpus ({} strings incl. the crate's own test inputs, comments, dollar quoting, prefixed literals, NUL, BOM); ALL strings over the {}-symbol alphabet {:?} and over the 13 characters SQL comments / casts / dollar quotes are made of, of length 0..={} (exhaustive); {} random Unicode strings; {} structured quoted-span cases. Non-trivial = length >= 2, distinct by input.",
        CORPUS.len() + SQL_CORPUS.len(), ALPHABET.len(), ALPHABET, max_len,
        if ctx.tier_thorough { 200000 } else { 20000 }, if ctx.tier_thorough { 200000 } else { 20000 });
    if let Some(rp) = ctx.replay.clone() {
        if let Some(s) = rp.get("input").and_then(|i| i.get("input")).and_then(|x| x.as_str()) {
            check_one(ctx, s);
        }
        return;
    }
    for s in CORPUS { check_one(ctx, s); }
    for s in SQL_CORPUS { check_one(ctx, s); }
    for len in 0..=max_len {
        for_each_string(&ALPHABET, len, &mut |s| check_one(ctx, s));
    }
    // the characters SQL comments, casts, dollar quoting, prefixed literals and statement ends are made of (nothing of this is
    // special to the tokenizer, and nothing may become special by losing a character)
    for len in 0..=max_len {
        for_each_string(&SQL_ALPHABET, len, &mut |s| check_one(ctx, s));
    }
    ctx.exhaustive = true;
    let n = if ctx.tier_thorough { 200000 } else { 20000 };
    for _ in 0..n {
        let mut r = ctx.rng.fork();
        let s = random_string(&mut r, 40);
        check_one(ctx, &s);
        // the same text behind / in front of / around one special code point (a tokenizer must not trim, skip or normalise anything)
        if s.chars().count() <= 12 { let c = loop { let c = random_char(&mut r); if (c as u32) >= 0x7f || (c as u32) < 0x20 { break c; } };
            check_one(ctx, &format!("{c}{s}")); check_one(ctx, &format!("{s}{c}")); check_one(ctx, &format!("{c}{s}{c}")); }
    }
    for _ in 0..n { check_quoted(ctx); }
}
