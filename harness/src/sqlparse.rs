//! A reference parser for the statement grammar of the three dialects (query statements), written
//! from the engines' documentation: clause order, separators and parentheses as the grammar
//! requires them, expressions by precedence climbing with the dialect's operator levels (the
//! tables of C05).  It produces a canonical tree in which redundant parentheses have vanished,
//! so the tree of a rendered statement can be compared with the tree of the fully explicit
//! reference rendering of the same builder calls.
use crate::c05::{bp, mix_of, nbp};
use crate::reflex::{self, B, Tok};

#[derive(Clone, Debug, PartialEq)]
pub enum T { L(String), N(String, Vec<T>) }
impl T {
    pub fn show(&self) -> String { match self { T::L(s) => s.clone(), T::N(k, c) => format!("({}{})", k, c.iter().map(|x| format!(" {}", x.show())).collect::<String>()) } }
}
pub fn n(k: &str, c: Vec<T>) -> T { T::N(k.to_string(), c) }
pub fn l(s: impl Into<String>) -> T { T::L(s.into()) }

/// operator spellings (upper-case token texts) and the operator id whose binding powers apply
fn op_table(b: B) -> Vec<(Vec<&'static str>, u32)> {
    let mut v: Vec<(Vec<&'static str>, u32)> = vec![
        (vec!["NOT", "BETWEEN"], 9), (vec!["NOT", "LIKE"], 3), (vec!["NOT", "IN"], 7), (vec!["IS", "NOT"], 5),
        (vec!["OR"], 1), (vec!["AND"], 0), (vec!["LIKE"], 2), (vec!["IS"], 4), (vec!["IN"], 6), (vec!["BETWEEN"], 8),
        (vec!["="], 10), (vec!["<>"], 11), (vec!["!="], 11), (vec!["<="], 14), (vec![">="], 15), (vec!["<<"], 23), (vec![">>"], 24), (vec!["<"], 12), (vec![">"], 13),
        (vec!["+"], 16), (vec!["-"], 17), (vec!["*"], 18), (vec!["/"], 19), (vec!["%"], 20), (vec!["&"], 21), (vec!["|"], 22),
    ];
    match b {
        B::Postgres => { let mut p: Vec<(Vec<&'static str>, u32)> = vec![(vec!["NOT", "ILIKE"], 31), (vec!["ILIKE"], 30), (vec!["@@"], 32), (vec!["@>"], 33), (vec!["<@"], 34), (vec!["||"], 35), (vec!["&&"], 36),
            (vec!["<%"], 38), (vec!["<<%"], 39), (vec!["<->"], 40), (vec!["<<->"], 41), (vec!["<<<->"], 42), (vec!["->>"], 44), (vec!["->"], 43), (vec!["~*"], 46), (vec!["~"], 45), (vec!["<#>"], 48), (vec!["<=>"], 49)]; p.append(&mut v); p }
        B::Sqlite => { let mut p: Vec<(Vec<&'static str>, u32)> = vec![(vec!["GLOB"], 60), (vec!["MATCH"], 61), (vec!["->>"], 63), (vec!["->"], 62)]; p.append(&mut v); p }
        B::Mysql => v,
    }
}

const STMT_START: [&str; 6] = ["SELECT", "WITH", "INSERT", "REPLACE", "UPDATE", "DELETE"];

pub struct P<'a> { pub b: B, pub t: &'a [Tok], pub i: usize, ops: Vec<(Vec<&'static str>, u32)> }
pub type R<X> = Result<X, String>;

impl<'a> P<'a> {
    pub fn new(b: B, t: &'a [Tok]) -> Self { P { b, t, i: 0, ops: op_table(b) } }
    pub fn err<X>(&self, m: &str) -> R<X> { Err(format!("{m} at token {} ({})", self.i, self.t.get(self.i).map(|t| format!("{t:?}")).unwrap_or("end".into()))) }
    pub fn text(&self, k: usize) -> Option<String> { match self.t.get(self.i + k) { Some(Tok::Word(w)) => Some(w.to_ascii_uppercase()), Some(Tok::Punct(p)) => Some(p.clone()), _ => None } }
    pub fn is(&self, w: &str) -> bool { self.text(0).as_deref() == Some(w) }
    pub fn is_seq(&self, ws: &[&str]) -> bool { ws.iter().enumerate().all(|(k, w)| self.text(k).as_deref() == Some(*w)) }
    pub fn eat(&mut self, w: &str) -> bool { if self.is(w) { self.i += 1; true } else { false } }
    pub fn eat_seq(&mut self, ws: &[&str]) -> bool { if self.is_seq(ws) { self.i += ws.len(); true } else { false } }
    pub fn expect(&mut self, w: &str) -> R<()> { if self.eat(w) { Ok(()) } else { self.err(&format!("expected {w}")) } }
    pub fn ident(&mut self) -> R<String> { match self.t.get(self.i) { Some(Tok::Ident(s)) => { self.i += 1; Ok(s.clone()) } _ => self.err("expected a quoted identifier") } }
    fn at_stmt(&self) -> bool { STMT_START.iter().any(|w| self.is(w)) }

    // ---------------------------------------------------------------- expressions
    fn op_at(&self) -> Option<(u32, usize, String)> {
        for (sp, id) in &self.ops { if self.is_seq(sp) { return Some((*id, sp.len(), sp.join(" "))); } }
        None
    }
    fn num(s: &str) -> String {
        if s.chars().all(|c| c.is_ascii_digit()) { let t = s.trim_start_matches('0'); if t.is_empty() { "0".into() } else { t.to_string() } }
        else { match s.parse::<f64>() { Ok(x) => format!("{x:e}"), Err(_) => s.to_string() } }
    }
    fn args(&mut self) -> R<Vec<T>> {
        // after "(" ; [DISTINCT] expr {, [DISTINCT] expr} ")"
        let mut v = Vec::new();
        if self.eat(")") { return Ok(v); }
        loop {
            let d = self.eat("DISTINCT");
            let e = self.expr(0)?;
            v.push(if d { n("distinct", vec![e]) } else { e });
            if self.eat(",") { continue; }
            self.expect(")")?;
            return Ok(v);
        }
    }
    fn case(&mut self) -> R<T> {
        // after CASE
        let mut v = Vec::new();
        while self.eat("WHEN") { let c = self.expr(0)?; self.expect("THEN")?; let r = self.expr(0)?; v.push(n("when", vec![c, r])); }
        if v.is_empty() { return self.err("CASE without WHEN"); }
        if self.eat("ELSE") { v.push(n("else", vec![self.expr(0)?])); }
        self.expect("END")?;
        Ok(n("case", v))
    }
    pub fn primary(&mut self) -> R<T> {
        match self.t.get(self.i).cloned() {
            Some(Tok::Param(_)) => { self.i += 1; Ok(l("param")) }
            Some(Tok::Num(s)) => { self.i += 1; Ok(l(format!("num:{}", Self::num(&s)))) }
            Some(Tok::Str(s)) => { self.i += 1; Ok(l(format!("str:{s}"))) }
            Some(Tok::Bytes(v)) => { self.i += 1; Ok(l(format!("bytes:{}", crate::hex(&v)))) }
            Some(Tok::Ident(s)) => {
                self.i += 1; let mut parts = vec![s];
                while self.is(".") { self.i += 1; if self.eat("*") { parts.push("*".into()); break; } parts.push(self.ident()?); }
                Ok(l(format!("col:{}", parts.join("\u{1}"))))
            }
            Some(Tok::Punct(p)) if p == "*" => { self.i += 1; Ok(l("star")) }
            Some(Tok::Punct(p)) if p == "-" => { self.i += 1; match self.t.get(self.i) { Some(Tok::Num(s)) => { let s = s.clone(); self.i += 1; Ok(l(format!("num:-{}", Self::num(&s)))) } _ => self.err("unary minus before a non-number") } }
            Some(Tok::Punct(p)) if p == "(" => {
                self.i += 1;
                if self.at_stmt() { let s = self.stmt()?; self.expect(")")?; return Ok(n("subquery", vec![s])); }
                if self.eat("CASE") { let c = self.case()?; self.expect(")")?; return Ok(c); }
                if self.eat(")") { return Ok(n("tuple", vec![])); }
                let e = self.expr(0)?;
                if self.is(",") { let mut v = vec![e]; while self.eat(",") { v.push(self.expr(0)?); } self.expect(")")?; return Ok(n("tuple", v)); }
                self.expect(")")?;
                Ok(e)
            }
            Some(Tok::Word(w)) => {
                let up = w.to_ascii_uppercase();
                self.i += 1;
                match up.as_str() {
                    "NOT" => { let e = self.expr(nbp(self.b))?; Ok(n("not", vec![e])) }
                    "NULL" | "TRUE" | "FALSE" | "CURRENT_DATE" | "CURRENT_TIME" | "CURRENT_TIMESTAMP" | "DEFAULT" => Ok(l(format!("kw:{up}"))),
                    "CASE" => self.case(),
                    "CAST" => {
                        self.expect("(")?;
                        let x = self.expr(2)?; // everything above `AS`
                        self.expect("AS")?;
                        let mut ty = Vec::new(); let mut depth = 0;
                        while let Some(t) = self.t.get(self.i) { if *t == Tok::Punct("(".into()) { depth += 1; } if *t == Tok::Punct(")".into()) { if depth == 0 { break; } depth -= 1; } ty.push(format!("{t:?}")); self.i += 1; }
                        self.expect(")")?;
                        Ok(n("cast", vec![x, l(format!("type:{}", ty.join(" ")))]))
                    }
                    "EXISTS" | "ANY" | "SOME" | "ALL" if self.is("(") && { let save = self.i; self.i += 1; let st = self.at_stmt(); self.i = save; st } => {
                        self.i += 1; let s = self.stmt()?; self.expect(")")?; Ok(n(&format!("subquery:{up}"), vec![s]))
                    }
                    _ => {
                        if self.eat("(") { let a = self.args()?; return Ok(n(&format!("fn:{up}"), a)); }
                        // bare word chain (caller-supplied text such as `x`, `a.b`)
                        let mut parts = vec![w];
                        while self.is(".") { if let Some(Tok::Word(x)) = self.t.get(self.i + 1) { parts.push(x.clone()); self.i += 2; } else { break; } }
                        Ok(l(format!("word:{}", parts.join("."))))
                    }
                }
            }
            _ => self.err("unexpected token in expression"),
        }
    }
    pub fn expr(&mut self, m: u32) -> R<T> {
        let mut lhs = self.primary()?;
        let mut top: Option<u32> = None;
        loop {
            let Some((o, len, sp)) = self.op_at() else { return Ok(lhs) };
            let p = bp(self.b, o);
            if m > p.lbp { return Ok(lhs); }
            if p.nonassoc && top == Some(p.lbp) { return self.err("non-associative operators chained"); }
            self.i += len;
            let r1 = self.expr(p.rbp)?;
            let rhs = match mix_of(o) {
                None => r1,
                Some(0) => { self.expect("AND")?; let r2 = self.expr(p.rbp2)?; n("bounds", vec![r1, r2]) }
                Some(_) => if self.eat("ESCAPE") { let r2 = self.expr(p.rbp2)?; n("escape", vec![r1, r2]) } else { r1 },
            };
            lhs = n(&format!("op:{sp}"), vec![lhs, rhs]);
            top = Some(p.lbp);
        }
    }
    fn exprs(&mut self) -> R<Vec<T>> { let mut v = vec![self.expr(0)?]; while self.eat(",") { v.push(self.expr(0)?); } Ok(v) }

    // ---------------------------------------------------------------- clauses
    pub fn table_name(&mut self) -> R<T> {
        let mut parts = vec![self.ident()?];
        while self.eat(".") { parts.push(self.ident()?); }
        let mut v = vec![l(format!("name:{}", parts.join("\u{1}")))];
        if self.eat("AS") { v.push(l(format!("alias:{}", self.ident()?))); }
        Ok(n("table", v))
    }
    fn from_item(&mut self) -> R<T> {
        if self.is("(") {
            self.i += 1;
            let inner = if self.eat("VALUES") {
                let mut rows = Vec::new();
                loop { if self.b == B::Mysql { self.expect("ROW")?; } self.expect("(")?; let a = self.args()?; rows.push(n("row", a)); if !self.eat(",") { break; } }
                n("values", rows)
            } else if self.at_stmt() { self.stmt()? } else { return self.err("expected a sub-query or VALUES"); };
            self.expect(")")?; self.expect("AS")?;
            let a = self.ident()?;
            return Ok(n("derived", vec![inner, l(format!("alias:{a}"))]));
        }
        if let Some(Tok::Word(w)) = self.t.get(self.i).cloned() {
            if self.text(1).as_deref() == Some("(") { self.i += 2; let a = self.args()?; self.expect("AS")?; let al = self.ident()?; return Ok(n("tablefn", vec![n(&format!("fn:{}", w.to_ascii_uppercase()), a), l(format!("alias:{al}"))])); }
        }
        self.table_name()
    }
    fn order_items(&mut self) -> R<Vec<T>> {
        let mut v = Vec::new();
        loop {
            let e = self.expr(0)?;
            let mut it = vec![e];
            if self.eat("ASC") { it.push(l("ASC")); } else if self.eat("DESC") { it.push(l("DESC")); }
            if self.eat("NULLS") { if self.b == B::Mysql { return self.err("NULLS FIRST / LAST does not exist in MySQL"); } if self.eat("FIRST") { it.push(l("NULLS FIRST")); } else if self.eat("LAST") { it.push(l("NULLS LAST")); } else { return self.err("expected FIRST or LAST"); } }
            v.push(n("key", it));
            if !self.eat(",") { return Ok(v); }
        }
    }
    fn bound(&mut self) -> R<T> {
        if self.eat_seq(&["UNBOUNDED", "PRECEDING"]) { return Ok(l("UNBOUNDED PRECEDING")); }
        if self.eat_seq(&["UNBOUNDED", "FOLLOWING"]) { return Ok(l("UNBOUNDED FOLLOWING")); }
        if self.eat_seq(&["CURRENT", "ROW"]) { return Ok(l("CURRENT ROW")); }
        let e = self.primary()?;
        if self.eat("PRECEDING") { Ok(n("preceding", vec![e])) } else if self.eat("FOLLOWING") { Ok(n("following", vec![e])) } else { self.err("expected PRECEDING or FOLLOWING") }
    }
    fn window_def(&mut self) -> R<T> {
        // after "(" ; [PARTITION BY ..] [ORDER BY ..] [frame] ")"
        let mut v = Vec::new();
        if self.eat_seq(&["PARTITION", "BY"]) { v.push(n("partition", self.exprs()?)); }
        if self.eat_seq(&["ORDER", "BY"]) { v.push(n("order", self.order_items()?)); }
        if self.is("ROWS") || self.is("RANGE") {
            let ty = self.text(0).unwrap(); self.i += 1;
            if self.eat("BETWEEN") { let a = self.bound()?; self.expect("AND")?; let b2 = self.bound()?; v.push(n(&format!("frame:{ty}"), vec![a, b2])); } else { let a = self.bound()?; v.push(n(&format!("frame:{ty}"), vec![a])); }
        }
        self.expect(")")?;
        Ok(n("window", v))
    }
    fn with_clause(&mut self) -> R<T> {
        // after WITH
        let mut v = Vec::new();
        if self.eat("RECURSIVE") { v.push(l("RECURSIVE")); }
        loop {
            let name = self.ident()?;
            let mut c = vec![l(format!("name:{name}"))];
            if self.eat("(") { let mut cols = Vec::new(); loop { cols.push(l(format!("col:{}", self.ident()?))); if !self.eat(",") { break; } } self.expect(")")?; c.push(n("cols", cols)); }
            self.expect("AS")?;
            if self.eat_seq(&["NOT", "MATERIALIZED"]) { if self.b == B::Mysql { return self.err("MATERIALIZED does not exist in MySQL"); } c.push(l("NOT MATERIALIZED")); }
            else if self.eat("MATERIALIZED") { if self.b == B::Mysql { return self.err("MATERIALIZED does not exist in MySQL"); } c.push(l("MATERIALIZED")); }
            self.expect("(")?; c.push(self.stmt()?); self.expect(")")?;
            v.push(n("cte", c));
            if !self.eat(",") { break; }
        }
        if self.eat("SEARCH") {
            if self.b != B::Postgres { return self.err("SEARCH exists in Postgres only"); }
            let ord = if self.eat("BREADTH") { "BREADTH" } else if self.eat("DEPTH") { "DEPTH" } else { return self.err("expected BREADTH or DEPTH"); };
            self.expect("FIRST")?; self.expect("BY")?; let e = self.expr(0)?; self.expect("SET")?; let a = self.ident()?;
            v.push(n(&format!("search:{ord}"), vec![e, l(format!("set:{a}"))]));
        }
        if self.eat("CYCLE") {
            if self.b != B::Postgres { return self.err("CYCLE exists in Postgres only"); }
            let e = self.expr(0)?; self.expect("SET")?; let s = self.ident()?; self.expect("USING")?; let u = self.ident()?;
            v.push(n("cycle", vec![e, l(format!("set:{s}")), l(format!("using:{u}"))]));
        }
        Ok(n("with", v))
    }
    fn select_core(&mut self) -> R<Vec<T>> {
        // after SELECT, up to (not including) set operations
        let mut v = Vec::new();
        if self.eat("DISTINCT") {
            if self.eat("ON") { if self.b != B::Postgres { return self.err("DISTINCT ON exists in Postgres only"); } self.expect("(")?; let a = self.args()?; v.push(n("distinct-on", a)); } else { v.push(l("DISTINCT")); }
        } else if self.eat("ALL") { v.push(l("ALL")); } else if self.eat("DISTINCTROW") { if self.b != B::Mysql { return self.err("DISTINCTROW exists in MySQL only"); } v.push(l("DISTINCTROW")); }
        let mut items = Vec::new();
        loop {
            let mut it = vec![self.expr(0)?];
            if self.eat("OVER") { if self.eat("(") { it.push(self.window_def()?); } else { it.push(l(format!("over:{}", self.ident()?))); } }
            if self.eat("AS") { it.push(l(format!("alias:{}", self.ident()?))); }
            items.push(n("item", it));
            if !self.eat(",") { break; }
        }
        v.push(n("select-list", items));
        if self.eat("FROM") {
            let mut f = vec![self.from_item()?]; while self.eat(",") { f.push(self.from_item()?); }
            v.push(n("from", f));
            while self.is("USE") || self.is("IGNORE") || self.is("FORCE") {
                if self.b != B::Mysql { return self.err("index hints exist in MySQL only"); }
                let ty = self.text(0).unwrap(); self.i += 1; self.expect("INDEX")?;
                let scope = if self.eat("FOR") { if self.eat("JOIN") { "JOIN" } else if self.eat_seq(&["ORDER", "BY"]) { "ORDER BY" } else if self.eat_seq(&["GROUP", "BY"]) { "GROUP BY" } else { return self.err("bad index hint scope"); } } else { "" };
                self.expect("(")?; let i = self.ident()?; self.expect(")")?;
                v.push(n(&format!("hint:{ty}:{scope}"), vec![l(i)]));
            }
            if self.eat("TABLESAMPLE") {
                if self.b != B::Postgres { return self.err("TABLESAMPLE exists in Postgres only"); }
                let m = self.text(0).unwrap_or_default(); self.i += 1; self.expect("(")?; let p = self.primary()?; self.expect(")")?;
                let mut s = vec![l(m), p];
                if self.eat("REPEATABLE") { self.expect("(")?; s.push(self.primary()?); self.expect(")")?; }
                v.push(n("tablesample", s));
            }
        }
        loop {
            let ty = if self.eat("JOIN") { "JOIN" } else if self.eat_seq(&["CROSS", "JOIN"]) { "CROSS JOIN" } else if self.eat_seq(&["INNER", "JOIN"]) { "INNER JOIN" } else if self.eat_seq(&["LEFT", "JOIN"]) { "LEFT JOIN" }
                else if self.eat_seq(&["RIGHT", "JOIN"]) { "RIGHT JOIN" } else if self.eat_seq(&["FULL", "OUTER", "JOIN"]) { if self.b == B::Mysql { return self.err("FULL OUTER JOIN does not exist in MySQL"); } "FULL OUTER JOIN" } else { break };
            let lat = self.eat("LATERAL");
            let t = self.from_item()?;
            let mut j = vec![t]; if lat { j.push(l("LATERAL")); }
            if self.eat("ON") { j.push(n("on", vec![self.expr(0)?])); }
            v.push(n(&format!("join:{ty}"), j));
        }
        if self.eat("WHERE") { v.push(n("where", vec![self.expr(0)?])); }
        if self.eat_seq(&["GROUP", "BY"]) { v.push(n("group-by", self.exprs()?)); }
        if self.eat("HAVING") { v.push(n("having", vec![self.expr(0)?])); }
        if self.eat("WINDOW") { let name = self.ident()?; self.expect("AS")?; self.expect("(")?; let w = self.window_def()?; v.push(n("named-window", vec![l(name), w])); }
        Ok(v)
    }
    fn select(&mut self) -> R<T> {
        self.expect("SELECT")?;
        let mut v = self.select_core()?;
        loop {
            let op = if self.eat_seq(&["UNION", "ALL"]) { "UNION ALL" } else if self.eat("UNION") { "UNION" } else if self.eat("INTERSECT") { "INTERSECT" } else if self.eat("EXCEPT") { "EXCEPT" } else { break };
            // MySQL / Postgres: a parenthesised query expression; SQLite: a bare select core
            let operand = if self.eat("(") { if self.b == B::Sqlite { return self.err("SQLite does not accept a parenthesised operand of a compound select"); } let s = self.stmt()?; self.expect(")")?; s }
                else { self.expect("SELECT")?; n("select", self.select_core()?) };
            v.push(n(&format!("setop:{op}"), vec![operand]));
        }
        if self.eat_seq(&["ORDER", "BY"]) { v.push(n("order-by", self.order_items()?)); }
        if self.eat("LIMIT") { v.push(n("limit", vec![self.primary()?])); }
        if self.eat("OFFSET") { v.push(n("offset", vec![self.primary()?])); }
        if self.eat("FOR") {
            if self.b == B::Sqlite { return self.err("SQLite has no locking clause"); }
            let ty = if self.eat("UPDATE") { "UPDATE" } else if self.eat_seq(&["NO", "KEY", "UPDATE"]) { "NO KEY UPDATE" } else if self.eat("SHARE") { "SHARE" } else if self.eat_seq(&["KEY", "SHARE"]) { "KEY SHARE" } else { return self.err("bad lock strength"); };
            let mut lk = vec![l(ty)];
            if self.eat("OF") { loop { lk.push(self.table_name()?); if !self.eat(",") { break; } } }
            if self.eat("NOWAIT") { lk.push(l("NOWAIT")); } else if self.eat_seq(&["SKIP", "LOCKED"]) { lk.push(l("SKIP LOCKED")); }
            v.push(n("for", lk));
        }
        Ok(n("select", v))
    }
    fn returning(&mut self, v: &mut Vec<T>) -> R<()> {
        if self.eat("RETURNING") { if self.b == B::Mysql { return self.err("RETURNING does not exist in MySQL"); } v.push(n("returning", self.exprs()?)); }
        Ok(())
    }
    fn assigns(&mut self) -> R<Vec<T>> {
        let mut v = Vec::new();
        loop {
            let mut parts = vec![self.ident()?]; while self.eat(".") { parts.push(self.ident()?); }
            self.expect("=")?;
            let e = self.expr(0)?;
            v.push(n("assign", vec![l(format!("col:{}", parts.join("\u{1}"))), e]));
            if !self.eat(",") { return Ok(v); }
        }
    }
    fn insert(&mut self) -> R<T> {
        let mut v = vec![l(if self.eat("REPLACE") { "REPLACE" } else { self.expect("INSERT")?; "INSERT" })];
        if self.eat("INTO") { v.push(self.from_item()?); }
        if self.eat_seq(&["DEFAULT", "VALUES"]) { v.push(l("DEFAULT VALUES")); }
        else if self.eat("VALUES") { let mut rows = Vec::new(); loop { self.expect("(")?; rows.push(n("row", self.args()?)); if !self.eat(",") { break; } } v.push(n("default-rows", rows)); }
        else {
            self.expect("(")?;
            let mut cols = Vec::new();
            if !self.eat(")") { loop { cols.push(l(format!("col:{}", self.ident()?))); if !self.eat(",") { break; } } self.expect(")")?; }
            v.push(n("columns", cols));
            if self.eat("VALUES") { let mut rows = Vec::new(); loop { self.expect("(")?; rows.push(n("row", self.args()?)); if !self.eat(",") { break; } } v.push(n("values", rows)); }
            else if self.at_stmt() { v.push(self.stmt()?); }
        }
        if self.eat_seq(&["ON", "DUPLICATE", "KEY"]) {
            if self.b != B::Mysql { return self.err("ON DUPLICATE KEY exists in MySQL only"); }
            self.expect("UPDATE")?;
            v.push(n("on-duplicate-key-update", self.assigns()?));
        } else if self.eat_seq(&["ON", "CONFLICT"]) {
            if self.b == B::Mysql { return self.err("ON CONFLICT does not exist in MySQL"); }
            let mut c = Vec::new();
            if self.eat("(") { c.push(n("target", self.args()?)); }
            if self.eat("WHERE") { c.push(n("target-where", vec![self.expr(0)?])); }
            self.expect("DO")?;
            if self.eat("NOTHING") { c.push(l("DO NOTHING")); } else { self.expect("UPDATE")?; self.expect("SET")?; c.push(n("do-update", self.assigns()?)); if self.eat("WHERE") { c.push(n("action-where", vec![self.expr(0)?])); } }
            v.push(n("on-conflict", c));
        }
        self.returning(&mut v)?;
        Ok(n("insert", v))
    }
    fn update(&mut self) -> R<T> {
        self.expect("UPDATE")?;
        let mut v = vec![self.from_item()?];
        while self.eat("JOIN") { if self.b != B::Mysql { return self.err("UPDATE .. JOIN exists in MySQL only"); } let mut j = vec![self.from_item()?]; if self.eat("ON") { j.push(n("on", vec![self.expr(0)?])); } v.push(n("join:JOIN", j)); }
        self.expect("SET")?;
        v.push(n("set", self.assigns()?));
        if self.eat("FROM") { if self.b == B::Mysql { return self.err("UPDATE .. FROM does not exist in MySQL"); } let mut f = vec![self.from_item()?]; while self.eat(",") { f.push(self.from_item()?); } v.push(n("from", f)); }
        if self.eat("WHERE") { v.push(n("where", vec![self.expr(0)?])); }
        self.returning(&mut v)?;
        if self.eat_seq(&["ORDER", "BY"]) { if self.b == B::Postgres { return self.err("UPDATE has no ORDER BY in Postgres"); } v.push(n("order-by", self.order_items()?)); }
        if self.eat("LIMIT") { if self.b == B::Postgres { return self.err("UPDATE has no LIMIT in Postgres"); } v.push(n("limit", vec![self.primary()?])); }
        Ok(n("update", v))
    }
    fn delete(&mut self) -> R<T> {
        self.expect("DELETE")?; self.expect("FROM")?;
        let mut v = vec![self.from_item()?];
        if self.eat("WHERE") { v.push(n("where", vec![self.expr(0)?])); }
        self.returning(&mut v)?;
        if self.eat_seq(&["ORDER", "BY"]) { if self.b == B::Postgres { return self.err("DELETE has no ORDER BY in Postgres"); } v.push(n("order-by", self.order_items()?)); }
        if self.eat("LIMIT") { if self.b == B::Postgres { return self.err("DELETE has no LIMIT in Postgres"); } v.push(n("limit", vec![self.primary()?])); }
        Ok(n("delete", v))
    }
    pub fn stmt(&mut self) -> R<T> {
        let with = if self.eat("WITH") { Some(self.with_clause()?) } else { None };
        let body = if self.is("SELECT") { self.select()? } else if self.is("INSERT") || self.is("REPLACE") { self.insert()? } else if self.is("UPDATE") { self.update()? } else if self.is("DELETE") { self.delete()? }
            else if self.is("WITH") { self.stmt()? } else { return self.err("expected a statement"); };
        Ok(match with { Some(w) => n("with-statement", vec![w, body]), None => body })
    }
}

pub fn parse(b: B, sql: &str) -> Result<T, String> {
    let t = reflex::lex(b, sql)?;
    let mut p = P { b, t: &t, i: 0, ops: op_table(b) };
    let s = p.stmt()?;
    if p.i != t.len() { return p.err("trailing tokens after the statement"); }
    Ok(s)
}
