//! Statement recipes: an AST in the vocabulary of the Lean statement model
//! (`lean/SeaQ/Model/Stmt.lean`), its S-expression form (sent to the driver), its construction
//! through the crate's public API, and a seeded generator.  Used by the checks of C01, C02,
//! C07, C08 and C09.
#![allow(dead_code)]
use crate::reflex::B;
use crate::*;
use sea_query::extension::mysql::{IndexHintScope, MySqlSelectStatementExt};
use sea_query::extension::postgres::{PgFunc, PostgresSelectStatementExt, SampleMethod};
use sea_query::*;

// ---------------------------------------------------------------- values

#[derive(Clone, Debug, PartialEq)]
pub enum Pay { Null, Bool(bool), Int(i128), Num(String), Str(String), Bytes(Vec<u8>), Quoted(String) }

#[derive(Clone, Debug)]
pub struct Val { pub ty: &'static str, pub v: Pay, pub real: Value }

pub fn variant_name(v: &Value) -> &'static str {
    match v {
        Value::Bool(_) => "Bool", Value::TinyInt(_) => "TinyInt", Value::SmallInt(_) => "SmallInt", Value::Int(_) => "Int",
        Value::BigInt(_) => "BigInt", Value::TinyUnsigned(_) => "TinyUnsigned", Value::SmallUnsigned(_) => "SmallUnsigned",
        Value::Unsigned(_) => "Unsigned", Value::BigUnsigned(_) => "BigUnsigned", Value::Float(_) => "Float", Value::Double(_) => "Double",
        Value::String(_) => "String", Value::Char(_) => "Char", Value::Bytes(_) => "Bytes", Value::Json(_) => "Json",
        Value::ChronoDate(_) => "ChronoDate", Value::ChronoTime(_) => "ChronoTime", Value::ChronoDateTime(_) => "ChronoDateTime",
        Value::ChronoDateTimeUtc(_) => "ChronoDateTimeUtc", Value::ChronoDateTimeLocal(_) => "ChronoDateTimeLocal",
        Value::ChronoDateTimeWithTimeZone(_) => "ChronoDateTimeWithTimeZone", Value::TimeDate(_) => "TimeDate", Value::TimeTime(_) => "TimeTime",
        Value::TimeDateTime(_) => "TimeDateTime", Value::TimeDateTimeWithTimeZone(_) => "TimeDateTimeWithTimeZone", Value::Uuid(_) => "Uuid",
        Value::Decimal(_) => "Decimal", Value::BigDecimal(_) => "BigDecimal", Value::Array(_, _) => "Array", Value::Vector(_) => "Vector",
        Value::IpNetwork(_) => "IpNetwork", Value::MacAddress(_) => "MacAddress",
    }
}

/// the text between the quotes of a date / time / uuid / network literal, written from the value's components by this
/// harness (not by the crate): the formats are the ones the crate documents (`YYYY-MM-DD`, `HH:MM:SS`, `YYYY-MM-DD HH:MM:SS`,
/// `.. +HH:MM` with a zone, six sub-second digits for the `time` crate's types, the hyphenated lower-case uuid,
/// `address/prefix`, colon-separated upper-case octets)
pub fn quoted_text(v: &Value) -> Option<String> {
    use chrono::{Datelike, Offset, Timelike};
    let cd = |d: chrono::NaiveDate| format!("{:04}-{:02}-{:02}", d.year(), d.month(), d.day());
    let ct = |t: chrono::NaiveTime| format!("{:02}:{:02}:{:02}", t.hour(), t.minute(), t.second());
    let off = |secs: i32| format!("{}{:02}:{:02}", if secs < 0 { '-' } else { '+' }, secs.abs() / 3600, secs.abs() % 3600 / 60);
    let td = |d: time::Date| format!("{:04}-{:02}-{:02}", d.year(), d.month() as u8, d.day());
    let tt = |t: time::Time| format!("{:02}:{:02}:{:02}.{:06}", t.hour(), t.minute(), t.second(), t.microsecond());
    Some(match v {
        Value::ChronoDate(Some(d)) => cd(**d),
        Value::ChronoTime(Some(t)) => ct(**t),
        Value::ChronoDateTime(Some(x)) => format!("{} {}", cd(x.date()), ct(x.time())),
        Value::ChronoDateTimeUtc(Some(x)) => format!("{} {} +00:00", cd(x.naive_utc().date()), ct(x.naive_utc().time())),
        Value::ChronoDateTimeLocal(Some(x)) => format!("{} {} {}", cd(x.naive_local().date()), ct(x.naive_local().time()), off(x.offset().fix().local_minus_utc())),
        Value::ChronoDateTimeWithTimeZone(Some(x)) => format!("{} {} {}", cd(x.naive_local().date()), ct(x.naive_local().time()), off(x.offset().fix().local_minus_utc())),
        Value::TimeDate(Some(d)) => td(**d),
        Value::TimeTime(Some(t)) => tt(**t),
        Value::TimeDateTime(Some(x)) => format!("{} {}", td(x.date()), tt(x.time())),
        Value::TimeDateTimeWithTimeZone(Some(x)) => format!("{} {} {}", td(x.date()), tt(x.time()), off(x.offset().whole_seconds())),
        Value::Uuid(Some(u)) => { let h = format!("{:032x}", u.as_u128()); format!("{}-{}-{}-{}-{}", &h[0..8], &h[8..12], &h[12..16], &h[16..20], &h[20..32]) }
        Value::IpNetwork(Some(n)) => format!("{}/{}", n.ip(), n.prefix()),
        Value::MacAddress(Some(m)) => m.bytes().iter().map(|b| format!("{b:02X}")).collect::<Vec<_>>().join(":"),
        _ => return None,
    })
}

/// the payload of a real `Value` in the model's vocabulary; `None` for variants outside the statement model (arrays, vectors).
/// Nothing here asks the crate for text, except for the two binary floating-point types, whose shortest round-trip digits are
/// Rust's own (`c01` checks that the literal reads back as exactly the value)
pub fn payload_of(v: &Value) -> Option<Pay> {
    Some(match v {
        Value::Bool(Some(b)) => Pay::Bool(*b),
        Value::TinyInt(Some(x)) => Pay::Int(*x as i128), Value::SmallInt(Some(x)) => Pay::Int(*x as i128), Value::Int(Some(x)) => Pay::Int(*x as i128),
        Value::BigInt(Some(x)) => Pay::Int(*x as i128), Value::TinyUnsigned(Some(x)) => Pay::Int(*x as i128), Value::SmallUnsigned(Some(x)) => Pay::Int(*x as i128),
        Value::Unsigned(Some(x)) => Pay::Int(*x as i128), Value::BigUnsigned(Some(x)) => Pay::Int(*x as i128),
        Value::Float(Some(x)) => Pay::Num(format!("{x:?}")), Value::Double(Some(x)) => Pay::Num(format!("{x:?}")),
        Value::Decimal(Some(x)) => Pay::Num(x.to_string()), Value::BigDecimal(Some(x)) => Pay::Num(x.to_string()),
        Value::String(Some(s)) => Pay::Str((**s).clone()),
        Value::Char(Some(c)) => Pay::Str(c.to_string()),
        Value::Json(Some(j)) => Pay::Str(j.to_string()),
        Value::Bytes(Some(b)) => Pay::Bytes((**b).clone()),
        Value::ChronoDate(Some(_)) | Value::ChronoTime(Some(_)) | Value::ChronoDateTime(Some(_)) | Value::ChronoDateTimeUtc(Some(_))
        | Value::ChronoDateTimeLocal(Some(_)) | Value::ChronoDateTimeWithTimeZone(Some(_)) | Value::TimeDate(Some(_)) | Value::TimeTime(Some(_))
        | Value::TimeDateTime(Some(_)) | Value::TimeDateTimeWithTimeZone(Some(_)) | Value::Uuid(Some(_)) | Value::IpNetwork(Some(_))
        | Value::MacAddress(Some(_)) => Pay::Quoted(quoted_text(v).expect("quoted kinds")),
        Value::Array(_, Some(_)) | Value::Vector(Some(_)) => return None,
        _ => Pay::Null,
    })
}

pub fn val(real: Value) -> Val { Val { ty: variant_name(&real), v: payload_of(&real).expect("value outside the statement model"), real } }

pub fn pay_tag(p: &Pay) -> String {
    match p {
        Pay::Null => "null".into(), Pay::Bool(b) => format!("b{}", *b as u8), Pay::Int(i) => format!("i{i}"),
        Pay::Num(t) => format!("n{}", hex(t.as_bytes())), Pay::Str(s) => format!("s{}", hex(s.as_bytes())),
        Pay::Bytes(b) => format!("y{}", hex(b)), Pay::Quoted(t) => format!("q{}", hex(t.as_bytes())),
    }
}
/// canonical tag of a bound value as returned by the crate (same format as the driver's `showVal`)
pub fn value_tag(v: &Value) -> String {
    match payload_of(v) { Some(p) => format!("{}/{}", variant_name(v), pay_tag(&p)), None => format!("{}/unmodelled", variant_name(v)) }
}
impl Val {
    pub fn sexp(&self) -> String {
        let p = match &self.v {
            Pay::Null => "null".to_string(), Pay::Bool(b) => format!("b {}", *b as u8), Pay::Int(i) => format!("i {i}"), Pay::Num(t) => format!("n {}", hs(t)),
            Pay::Str(s) => format!("s {}", hs(s)), Pay::Bytes(b) => format!("y {}", hb(b)), Pay::Quoted(t) => format!("q {}", hs(t)),
        };
        format!("(v {} {})", self.ty, p)
    }
    pub fn tag(&self) -> String { format!("{}/{}", self.ty, pay_tag(&self.v)) }
}

// ---------------------------------------------------------------- AST

#[derive(Clone, Debug)]
pub enum ColRef { Col(String), TCol(String, String), STCol(String, String, String), Star, TStar(String) }
#[derive(Clone, Debug, PartialEq)]
pub enum Op { Std(u32), Custom(&'static str) }
#[derive(Clone, Debug)]
pub enum Fun { Std(u32), Custom(String), Pg(u32) }
#[derive(Clone, Debug)]
pub enum Kw { Null, CurrentDate, CurrentTime, CurrentTimestamp, Custom(String) }
#[derive(Clone, Debug)]
pub enum Ex {
    Col(ColRef), Tuple(Vec<Ex>), Not(Box<Ex>),
    /// function, distinct flag of the first argument, arguments
    Func(Fun, bool, Vec<Ex>),
    Bin(Box<Ex>, Op, Box<Ex>), Subq(Option<u8>, Box<Query>), Val(Val), Vals(Vec<Val>), Cust(String), CustW(String, Vec<Ex>), Kw(Kw),
    Enum(String, Box<Ex>), Case(Vec<(Cond, Ex)>, Option<Box<Ex>>), Const(Val),
}
#[derive(Clone, Debug)]
pub enum Item { C(Cond), E(Ex) }
#[derive(Clone, Debug)]
pub struct Cond { pub neg: bool, pub any: bool, pub items: Vec<Item> }
#[derive(Clone, Debug)]
pub enum Holder { Empty, Chain(Vec<(bool, Ex)>), Cond(Cond) }
#[derive(Clone, Debug)]
pub enum Query { Sel(Select), Ins(Insert), Upd(Update), Del(Delete), With(WithC, Box<Query>) }
#[derive(Clone, Debug)]
pub enum Distinct { All, Distinct, Row, On(Vec<ColRef>) }
#[derive(Clone, Debug)]
pub struct Hint { pub index: String, pub ty: u32, pub scope: u32 }
#[derive(Clone, Debug)]
pub struct Sample { pub method: u32, pub pct: f64, pub rep: Option<f64> }
#[derive(Clone, Debug)]
pub struct TName { pub parts: Vec<String>, pub alias: Option<String> }
#[derive(Clone, Debug)]
pub struct Lock { pub ty: u32, pub tables: Vec<TName>, pub behavior: Option<u32> }
#[derive(Clone, Debug)]
pub enum Bound { UP, P(u32), CR, F(u32), UF }
#[derive(Clone, Debug)]
pub struct FrameC { pub rows: bool, pub start: Bound, pub stop: Option<Bound> }
#[derive(Clone, Debug)]
pub struct Window { pub partition: Vec<Ex>, pub orders: Vec<OrderItem>, pub frame: Option<FrameC> }
#[derive(Clone, Debug)]
pub enum OrderKind { Asc, Desc, Field(Vec<Val>) }
#[derive(Clone, Debug)]
pub struct OrderItem { pub e: Ex, pub kind: OrderKind, pub nulls_first: Option<bool> }
#[derive(Clone, Debug)]
pub enum WinSel { None, Name(String), Query(Window) }
#[derive(Clone, Debug)]
pub struct SelItem { pub e: Ex, pub win: WinSel, pub alias: Option<String> }
#[derive(Clone, Debug)]
pub enum TRef { Named(TName), Sub(Box<Select>, String), Vals(Vec<Vec<Val>>, String), Func(Fun, bool, Vec<Ex>, String) }
#[derive(Clone, Debug)]
pub struct Join { pub ty: u32, pub lateral: bool, pub t: TRef, pub on: Holder }
#[derive(Clone, Debug, Default)]
pub struct Select {
    pub with: Option<WithC>, pub distinct: Option<Distinct>, pub selects: Vec<SelItem>, pub from: Vec<TRef>, pub hints: Vec<Hint>,
    pub sample: Option<Sample>, pub joins: Vec<Join>, pub wher: Holder, pub groups: Vec<Ex>, pub having: Holder,
    pub unions: Vec<(u32, Select)>, pub orders: Vec<OrderItem>, pub limit: Option<u64>, pub offset: Option<u64>, pub lock: Option<Lock>,
    pub window: Option<(String, Window)>,
}
impl Default for Holder { fn default() -> Self { Holder::Empty } }
#[derive(Clone, Debug)]
pub struct Cte { pub name: String, pub cols: Vec<String>, pub mat: Option<bool>, pub q: Query }
#[derive(Clone, Debug)]
pub struct WithC { pub recursive: bool, pub search: Option<(bool, Ex, String)>, pub cycle: Option<(Ex, String, String)>, pub ctes: Vec<Cte> }
#[derive(Clone, Debug)]
pub enum Source { None, Values(Vec<Vec<Ex>>), Select(Box<Select>) }
#[derive(Clone, Debug)]
pub enum Target { Col(String), Expr(Ex) }
#[derive(Clone, Debug)]
pub enum Upd { Col(String), Expr(String, Ex) }
#[derive(Clone, Debug)]
pub enum Action { None, Nothing(Vec<String>), Update(Vec<Upd>) }
#[derive(Clone, Debug)]
pub struct OnC { pub targets: Vec<Target>, pub target_where: Holder, pub action: Action, pub action_where: Holder }
#[derive(Clone, Debug)]
pub enum Ret { None, All, Cols(Vec<ColRef>), Exprs(Vec<Ex>) }
#[derive(Clone, Debug)]
pub struct Insert { pub with: Option<WithC>, pub replace: bool, pub table: Option<TRef>, pub columns: Vec<String>, pub source: Source, pub on_conflict: Option<OnC>, pub returning: Ret, pub default_values: Option<u32> }
#[derive(Clone, Debug)]
pub struct Update { pub with: Option<WithC>, pub table: Option<TRef>, pub sets: Vec<(String, Ex)>, pub wher: Holder, pub orders: Vec<OrderItem>, pub limit: Option<u64>, pub returning: Ret, pub from: Vec<TRef> }
#[derive(Clone, Debug)]
pub struct Delete { pub with: Option<WithC>, pub table: Option<TRef>, pub wher: Holder, pub orders: Vec<OrderItem>, pub limit: Option<u64>, pub returning: Ret }

// ---------------------------------------------------------------- S-expressions

fn opt<T>(o: &Option<T>, f: impl Fn(&T) -> String) -> String { match o { Some(x) => f(x), None => "-".into() } }
fn join<T>(xs: &[T], f: impl Fn(&T) -> String) -> String { xs.iter().map(f).collect::<Vec<_>>().join(" ") }
fn lim(v: &Option<u64>) -> String { opt(v, |n| format!("(v BigUnsigned i {n})")) }

impl ColRef {
    pub fn sexp(&self) -> String {
        match self {
            ColRef::Col(c) => format!("(c {})", hs(c)), ColRef::TCol(t, c) => format!("(tc {} {})", hs(t), hs(c)),
            ColRef::STCol(s, t, c) => format!("(stc {} {} {})", hs(s), hs(t), hs(c)), ColRef::Star => "(star)".into(), ColRef::TStar(t) => format!("(tstar {})", hs(t)),
        }
    }
}
impl Op { pub fn sexp(&self) -> String { match self { Op::Std(i) => i.to_string(), Op::Custom(s) => format!("(cu {})", hs(s)) } } }
impl Fun { pub fn sexp(&self) -> String { match self { Fun::Std(i) => format!("(f {i})"), Fun::Custom(n) => format!("(fc {})", hs(n)), Fun::Pg(i) => format!("(fp {i})") } } }
fn flags(distinct: bool, n: usize) -> String { if n == 0 { "-".into() } else { let mut s = String::new(); for i in 0..n { s.push(if i == 0 && distinct { '1' } else { '0' }); } s } }
impl Ex {
    pub fn sexp(&self) -> String {
        match self {
            Ex::Col(c) => format!("(col {})", c.sexp()),
            Ex::Tuple(es) => format!("(tuple {})", join(es, Ex::sexp)),
            Ex::Not(e) => format!("(not {})", e.sexp()),
            Ex::Func(f, d, args) => format!("(fn {} {} {})", f.sexp(), flags(*d, args.len()), join(args, Ex::sexp)),
            Ex::Bin(l, o, r) => format!("(bin {} {} {})", l.sexp(), o.sexp(), r.sexp()),
            Ex::Subq(o, q) => format!("(subq {} {})", match o { None => "-", Some(0) => "exists", Some(1) => "any", Some(2) => "some", _ => "all" }, q.sexp()),
            Ex::Val(v) => format!("(val {})", v.sexp()),
            Ex::Vals(vs) => format!("(vals {})", join(vs, Val::sexp)),
            Ex::Cust(s) => format!("(cust {})", hs(s)),
            Ex::CustW(t, es) => format!("(custw {} {})", hs(t), join(es, Ex::sexp)),
            Ex::Kw(k) => format!("(kw {})", match k { Kw::Null => "null".into(), Kw::CurrentDate => "cd".into(), Kw::CurrentTime => "ct".into(), Kw::CurrentTimestamp => "cts".into(), Kw::Custom(s) => format!("(cu {})", hs(s)) }),
            Ex::Enum(t, e) => format!("(enum {} {})", hs(t), e.sexp()),
            Ex::Case(ws, el) => format!("(case ({}) {})", join(ws, |(c, e)| format!("(w {} {})", c.sexp(), e.sexp())), opt(el, |e| e.sexp())),
            Ex::Const(v) => format!("(const {})", v.sexp()),
        }
    }
}
impl Cond { pub fn sexp(&self) -> String { format!("(cond {} {} {})", self.neg as u8, self.any as u8, join(&self.items, |i| match i { Item::C(c) => c.sexp(), Item::E(e) => e.sexp() })) } }
impl Holder {
    pub fn sexp(&self) -> String {
        match self { Holder::Empty => "-".into(), Holder::Chain(l) => format!("(chain {})", join(l, |(or, e)| format!("({} {})", if *or { "or" } else { "and" }, e.sexp()))), Holder::Cond(c) => c.sexp() }
    }
}
impl TName { pub fn sexp(&self) -> String { format!("(t ({}) {})", join(&self.parts, |p| hs(p)), opt(&self.alias, |a| hs(a))) } }
fn bound(b: &Bound) -> String { match b { Bound::UP => "up".into(), Bound::P(n) => format!("(p {n})"), Bound::CR => "cr".into(), Bound::F(n) => format!("(f {n})"), Bound::UF => "uf".into() } }
impl Window {
    pub fn sexp(&self) -> String {
        format!("(win ({}) ({}) {})", join(&self.partition, Ex::sexp), join(&self.orders, OrderItem::sexp),
            opt(&self.frame, |f| format!("(fr {} {} {})", f.rows as u8, bound(&f.start), opt(&f.stop, bound))))
    }
}
impl OrderItem {
    pub fn sexp(&self) -> String {
        format!("(o {} {} {})", self.e.sexp(), match &self.kind { OrderKind::Asc => "asc".into(), OrderKind::Desc => "desc".into(), OrderKind::Field(vs) => format!("(field {})", join(vs, Val::sexp)) },
            match self.nulls_first { None => "-", Some(true) => "first", Some(false) => "last" })
    }
}
impl TRef {
    pub fn sexp(&self) -> String {
        match self {
            TRef::Named(n) => n.sexp(), TRef::Sub(s, a) => format!("(tsub {} {})", s.sexp(), hs(a)),
            TRef::Vals(rows, a) => format!("(tvals {} {})", hs(a), join(rows, |r| format!("(r {})", join(r, Val::sexp)))),
            TRef::Func(f, d, args, a) => format!("(tfn {} {} {} {})", f.sexp(), flags(*d, args.len()), hs(a), join(args, Ex::sexp)),
        }
    }
}
fn f64s(x: f64) -> String { format!("{x}") }
impl Select {
    pub fn sexp(&self) -> String {
        format!("(sel {} {} ({}) ({}) ({}) {} ({}) {} ({}) {} ({}) ({}) {} {} {} {})",
            opt(&self.with, WithC::sexp),
            opt(&self.distinct, |d| match d { Distinct::All => "all".into(), Distinct::Distinct => "distinct".into(), Distinct::Row => "row".into(), Distinct::On(cs) => format!("(on {})", join(cs, ColRef::sexp)) }),
            join(&self.selects, |s| format!("(si {} {} {})", s.e.sexp(), match &s.win { WinSel::None => "-".into(), WinSel::Name(n) => format!("(n {})", hs(n)), WinSel::Query(w) => format!("(q {})", w.sexp()) }, opt(&s.alias, |a| hs(a)))),
            join(&self.from, TRef::sexp),
            join(&self.hints, |h| format!("(h {} {} {})", hs(&h.index), h.ty, h.scope)),
            opt(&self.sample, |s| format!("(s {} {} {})", s.method, hs(&f64s(s.pct)), opt(&s.rep, |r| hs(&f64s(*r))))),
            join(&self.joins, |j| format!("(j {} {} {} {})", j.ty, j.lateral as u8, j.t.sexp(), j.on.sexp())),
            self.wher.sexp(), join(&self.groups, Ex::sexp), self.having.sexp(),
            join(&self.unions, |(t, s)| format!("(u {} {})", t, s.sexp())),
            join(&self.orders, OrderItem::sexp), lim(&self.limit), lim(&self.offset),
            opt(&self.lock, |l| format!("(l {} ({}) {})", l.ty, join(&l.tables, TName::sexp), opt(&l.behavior, |b| b.to_string()))),
            opt(&self.window, |(n, w)| format!("(w {} {})", hs(n), w.sexp())))
    }
}
impl WithC {
    pub fn sexp(&self) -> String {
        let (sb, se, sa) = match &self.search { Some((b, e, a)) => (*b, e.sexp(), hs(a)), None => (false, "-".into(), hs("")) };
        let (ce, cs, cu) = match &self.cycle { Some((e, s, u)) => (e.sexp(), hs(s), hs(u)), None => ("-".into(), hs(""), hs("")) };
        format!("(wc {} {} {} {} {} {} {} {})", self.recursive as u8, sb as u8, se, sa, ce, cs, cu,
            join(&self.ctes, |c| format!("(cte {} ({}) {} {})", hs(&c.name), join(&c.cols, |x| hs(x)), opt(&c.mat, |m| (*m as u8).to_string()), c.q.sexp())))
    }
}
fn ret(r: &Ret) -> String { match r { Ret::None => "-".into(), Ret::All => "all".into(), Ret::Cols(cs) => format!("(cols {})", join(cs, ColRef::sexp)), Ret::Exprs(es) => format!("(exprs {})", join(es, Ex::sexp)) } }
impl Insert {
    pub fn sexp(&self) -> String {
        format!("(ins {} {} {} ({}) {} {} {} {})", opt(&self.with, WithC::sexp), self.replace as u8, opt(&self.table, TRef::sexp), join(&self.columns, |c| hs(c)),
            match &self.source { Source::None => "-".into(), Source::Values(rows) => format!("(values {})", join(rows, |r| format!("(r {})", join(r, Ex::sexp)))), Source::Select(s) => format!("(select {})", s.sexp()) },
            opt(&self.on_conflict, |oc| format!("(oc ({}) {} {} {})", join(&oc.targets, |t| match t { Target::Col(c) => format!("(tc {})", hs(c)), Target::Expr(e) => format!("(te {})", e.sexp()) }),
                oc.target_where.sexp(), match &oc.action { Action::None => "-".into(), Action::Nothing(pk) => format!("(nothing {})", join(pk, |c| hs(c))), Action::Update(us) => format!("(update {})", join(us, |u| match u { Upd::Col(c) => format!("(uc {})", hs(c)), Upd::Expr(c, e) => format!("(ue {} {})", hs(c), e.sexp()) })) },
                oc.action_where.sexp())),
            ret(&self.returning), opt(&self.default_values, |n| n.to_string()))
    }
}
impl Update {
    pub fn sexp(&self) -> String {
        format!("(upd {} {} ({}) {} ({}) {} {} ({}))", opt(&self.with, WithC::sexp), opt(&self.table, TRef::sexp), join(&self.sets, |(c, e)| format!("(set {} {})", hs(c), e.sexp())),
            self.wher.sexp(), join(&self.orders, OrderItem::sexp), lim(&self.limit), ret(&self.returning), join(&self.from, TRef::sexp))
    }
}
impl Delete {
    pub fn sexp(&self) -> String {
        format!("(del {} {} {} ({}) {} {})", opt(&self.with, WithC::sexp), opt(&self.table, TRef::sexp), self.wher.sexp(), join(&self.orders, OrderItem::sexp), lim(&self.limit), ret(&self.returning))
    }
}
impl Query {
    pub fn sexp(&self) -> String {
        match self { Query::Sel(s) => s.sexp(), Query::Ins(s) => s.sexp(), Query::Upd(s) => s.sexp(), Query::Del(s) => s.sexp(), Query::With(w, q) => format!("(with {} {})", w.sexp(), q.sexp()) }
    }
}

// ---------------------------------------------------------------- construction through the public API

fn id(s: &str) -> DynIden { Alias::new(s).into_iden() }
impl ColRef {
    pub fn build(&self) -> ColumnRef {
        match self {
            ColRef::Col(c) => ColumnRef::Column(id(c)), ColRef::TCol(t, c) => ColumnRef::TableColumn(id(t), id(c)),
            ColRef::STCol(s, t, c) => ColumnRef::SchemaTableColumn(id(s), id(t), id(c)), ColRef::Star => ColumnRef::Asterisk, ColRef::TStar(t) => ColumnRef::TableAsterisk(id(t)),
        }
    }
}
impl Op { pub fn build(&self) -> BinOper { match self { Op::Std(i) => crate::c05::binop(*i), Op::Custom(s) => BinOper::Custom(s) } } }

pub fn build_fn(f: &Fun, distinct: bool, args: &[Ex]) -> FunctionCall {
    let a: Vec<SimpleExpr> = args.iter().map(Ex::build).collect();
    let first = || a[0].clone();
    let (mut call, used) = match f {
        Fun::Custom(n) => (Func::cust(Alias::new(n.as_str())), 0),
        Fun::Std(i) => match i {
            0 => (Func::max(first()), 1), 1 => (Func::min(first()), 1), 2 => (Func::sum(first()), 1), 3 => (Func::avg(first()), 1), 4 => (Func::abs(first()), 1),
            5 => (Func::coalesce(a.clone()), a.len()),
            6 => (if distinct { Func::count_distinct(first()) } else { Func::count(first()) }, 1),
            7 => (Func::if_null(first(), a[1].clone()), 2),
            8 => (Func::greatest(a.clone()), a.len()), 9 => (Func::least(a.clone()), a.len()),
            10 => (Func::char_length(first()), 1),
            11 => match &args[0] { Ex::Bin(x, Op::Std(25), t) => match &**t { Ex::Cust(ty) => (Func::cast_as(x.build(), Alias::new(ty.as_str())), 1), _ => panic!("cast shape") }, _ => panic!("cast shape") },
            12 => (Func::lower(first()), 1), 13 => (Func::upper(first()), 1), 14 => (Func::bit_and(first()), 1), 15 => (Func::bit_or(first()), 1),
            16 => (Func::random(), 0), 17 => (Func::round(first()), 1), 18 => (Func::md5(first()), 1),
            _ => panic!("fn id"),
        },
        Fun::Pg(i) => match i {
            // with a text-search configuration OID (an Unsigned value as the first argument) the two-argument constructor form is used
            0..=4 => {
                let cfg = match (args.first(), args.len() >= 2) { (Some(Ex::Val(v)), true) => match v.real { Value::Unsigned(Some(n)) => Some(n), _ => None }, _ => None };
                let (e, used) = if cfg.is_some() { (a[1].clone(), 2) } else { (first(), 1) };
                (match i { 0 => PgFunc::to_tsquery(e, cfg), 1 => PgFunc::to_tsvector(e, cfg), 2 => PgFunc::phraseto_tsquery(e, cfg), 3 => PgFunc::plainto_tsquery(e, cfg), _ => PgFunc::websearch_to_tsquery(e, cfg) }, used)
            }
            9 => { let k = a.len() / 2; (PgFunc::json_build_object((0..k).map(|j| (a[2 * j].clone(), a[2 * j + 1].clone())).collect()), 2 * k) }
            12 => {
                use sea_query::PgDateTruncUnit as U;
                let unit = match &args[0] { Ex::Val(v) => match &v.real { Value::String(Some(s)) => s.to_string(), _ => panic!("date_trunc unit") }, _ => panic!("date_trunc unit") };
                let u = match unit.as_str() { "microseconds" => U::Microseconds, "milliseconds" => U::Milliseconds, "second" => U::Second, "minute" => U::Minute, "hour" => U::Hour, "day" => U::Day, "week" => U::Week,
                    "month" => U::Month, "quarter" => U::Quarter, "year" => U::Year, "decade" => U::Decade, "century" => U::Century, "millennium" => U::Millennium, _ => panic!("date_trunc unit") };
                (PgFunc::date_trunc(u, a[1].clone()), 2)
            }
            5 => (PgFunc::ts_rank(first(), a[1].clone()), 2), 6 => (PgFunc::ts_rank_cd(first(), a[1].clone()), 2),
            7 => (PgFunc::starts_with(first(), a[1].clone()), 2), 8 => (PgFunc::gen_random_uuid(), 0),
            10 => (PgFunc::json_agg(first()), 1), 11 => (if distinct { PgFunc::array_agg_distinct(first()) } else { PgFunc::array_agg(first()) }, 1),
            13 => (PgFunc::any(first()), 1), 14 => (PgFunc::some(first()), 1), 15 => (PgFunc::all(first()), 1),
            _ => panic!("pg fn id"),
        },
    };
    for x in a.into_iter().skip(used) { call = call.arg(x); }
    call
}
/// minimum number of arguments the constructor used by `build_fn` needs
pub fn fn_min_args(f: &Fun) -> usize {
    match f { Fun::Custom(_) => 0, Fun::Std(i) => match i { 5 | 8 | 9 | 16 => 0, 7 => 2, _ => 1 }, Fun::Pg(i) => match i { 8 | 9 => 0, 5 | 6 | 7 | 12 => 2, _ => 1 } }
}

impl Ex {
    pub fn build(&self) -> SimpleExpr {
        match self {
            Ex::Col(c) => SimpleExpr::Column(c.build()),
            Ex::Tuple(es) => SimpleExpr::Tuple(es.iter().map(Ex::build).collect()),
            Ex::Not(e) => SimpleExpr::Unary(UnOper::Not, Box::new(e.build())),
            Ex::Func(f, d, args) => SimpleExpr::FunctionCall(build_fn(f, *d, args)),
            Ex::Bin(l, o, r) => SimpleExpr::Binary(Box::new(l.build()), o.build(), Box::new(r.build())),
            Ex::Subq(o, q) => SimpleExpr::SubQuery(o.map(|o| match o { 0 => SubQueryOper::Exists, 1 => SubQueryOper::Any, 2 => SubQueryOper::Some, _ => SubQueryOper::All }), Box::new(q.build())),
            Ex::Val(v) => SimpleExpr::Value(v.real.clone()),
            Ex::Vals(vs) => SimpleExpr::Values(vs.iter().map(|v| v.real.clone()).collect()),
            Ex::Cust(s) => SimpleExpr::Custom(s.clone()),
            Ex::CustW(t, es) => SimpleExpr::CustomWithExpr(t.clone(), es.iter().map(Ex::build).collect()),
            Ex::Kw(k) => SimpleExpr::Keyword(match k { Kw::Null => Keyword::Null, Kw::CurrentDate => Keyword::CurrentDate, Kw::CurrentTime => Keyword::CurrentTime, Kw::CurrentTimestamp => Keyword::CurrentTimestamp, Kw::Custom(s) => Keyword::Custom(id(s)) }),
            Ex::Enum(t, e) => SimpleExpr::AsEnum(id(t), Box::new(e.build())),
            Ex::Case(ws, el) => {
                let mut c = CaseStatement::new();
                for (cond, e) in ws { c = c.case(cond.build(), e.build()); }
                if let Some(e) = el { c = c.finally(e.build()); }
                SimpleExpr::Case(Box::new(c))
            }
            Ex::Const(v) => SimpleExpr::Constant(v.real.clone()),
        }
    }
}
impl Cond {
    /// `Condition::add` unwraps a nested, non-negated condition with exactly one member; the generator never
    /// produces such an item, so the built condition has exactly the recipe's structure
    pub fn build(&self) -> Condition {
        let mut c = if self.any { Condition::any() } else { Condition::all() };
        for it in &self.items { c = match it { Item::C(x) => c.add(x.build()), Item::E(e) => c.add(e.build()) }; }
        if self.neg { c = c.not(); }
        c
    }
}
impl TName {
    pub fn build(&self) -> TableRef {
        let p: Vec<DynIden> = self.parts.iter().map(|s| id(s)).collect();
        match (p.len(), &self.alias) {
            (1, None) => TableRef::Table(p[0].clone()), (2, None) => TableRef::SchemaTable(p[0].clone(), p[1].clone()),
            (3, None) => TableRef::DatabaseSchemaTable(p[0].clone(), p[1].clone(), p[2].clone()),
            (1, Some(a)) => TableRef::TableAlias(p[0].clone(), id(a)), (2, Some(a)) => TableRef::SchemaTableAlias(p[0].clone(), p[1].clone(), id(a)),
            (3, Some(a)) => TableRef::DatabaseSchemaTableAlias(p[0].clone(), p[1].clone(), p[2].clone(), id(a)),
            _ => panic!("table name parts"),
        }
    }
}
fn build_bound(b: &Bound) -> Frame { match b { Bound::UP => Frame::UnboundedPreceding, Bound::P(n) => Frame::Preceding(*n), Bound::CR => Frame::CurrentRow, Bound::F(n) => Frame::Following(*n), Bound::UF => Frame::UnboundedFollowing } }
fn build_order(kind: &OrderKind) -> Order { match kind { OrderKind::Asc => Order::Asc, OrderKind::Desc => Order::Desc, OrderKind::Field(vs) => Order::Field(Values(vs.iter().map(|v| v.real.clone()).collect())) } }
macro_rules! add_orders {
    ($stmt:expr, $orders:expr) => {
        for o in $orders {
            match o.nulls_first {
                None => { $stmt.order_by_expr(o.e.build(), build_order(&o.kind)); }
                Some(f) => { $stmt.order_by_expr_with_nulls(o.e.build(), build_order(&o.kind), if f { NullOrdering::First } else { NullOrdering::Last }); }
            }
        }
    };
}
impl Window {
    pub fn build(&self) -> WindowStatement {
        let mut w = WindowStatement::new();
        for p in &self.partition { w.add_partition_by(p.build()); }
        add_orders!(w, &self.orders);
        if let Some(f) = &self.frame { w.frame(if f.rows { FrameType::Rows } else { FrameType::Range }, build_bound(&f.start), f.stop.as_ref().map(build_bound)); }
        w
    }
}
impl TRef {
    pub fn build(&self) -> TableRef {
        match self {
            TRef::Named(n) => n.build(), TRef::Sub(s, a) => TableRef::SubQuery(s.build(), id(a)),
            TRef::Vals(rows, a) => TableRef::ValuesList(rows.iter().map(|r| tuple_of(r)).collect(), id(a)),
            TRef::Func(f, d, args, a) => TableRef::FunctionCall(build_fn(f, *d, args), id(a)),
        }
    }
}
fn tuple_of(r: &[Val]) -> ValueTuple {
    let v: Vec<Value> = r.iter().map(|x| x.real.clone()).collect();
    match v.len() { 1 => ValueTuple::One(v[0].clone()), 2 => ValueTuple::Two(v[0].clone(), v[1].clone()), 3 => ValueTuple::Three(v[0].clone(), v[1].clone(), v[2].clone()), _ => ValueTuple::Many(v) }
}
fn join_type(t: u32) -> JoinType { match t { 0 => JoinType::Join, 1 => JoinType::CrossJoin, 2 => JoinType::InnerJoin, 3 => JoinType::LeftJoin, 4 => JoinType::RightJoin, _ => JoinType::FullOuterJoin } }
fn union_type(t: u32) -> UnionType { match t { 0 => UnionType::Intersect, 1 => UnionType::Distinct, 2 => UnionType::Except, _ => UnionType::All } }
macro_rules! add_where {
    ($stmt:expr, $h:expr) => {
        match $h {
            Holder::Empty => {}
            Holder::Chain(l) => { for (or, e) in l { $stmt.and_or_where(if *or { LogicalChainOper::Or(e.build()) } else { LogicalChainOper::And(e.build()) }); } }
            Holder::Cond(c) => { $stmt.cond_where(c.build()); }
        }
    };
}
fn build_ret(r: &Ret) -> Option<ReturningClause> {
    match r { Ret::None => None, Ret::All => Some(ReturningClause::All), Ret::Cols(cs) => Some(ReturningClause::Columns(cs.iter().map(ColRef::build).collect())), Ret::Exprs(es) => Some(ReturningClause::Exprs(es.iter().map(Ex::build).collect())) }
}
impl Select {
    pub fn build(&self) -> SelectStatement {
        let mut s = SelectStatement::new();
        if let Some(w) = &self.with { s.with_cte(w.build()); }
        match &self.distinct {
            None => {}
            Some(Distinct::All) | Some(Distinct::Row) => panic!("no public setter for SelectDistinct::All / DistinctRow"),
            Some(Distinct::Distinct) => { s.distinct(); }
            Some(Distinct::On(cs)) => { s.distinct_on(cs.iter().map(ColRef::build).collect::<Vec<_>>()); }
        }
        for it in &self.selects {
            s.expr(SelectExpr { expr: it.e.build(), alias: it.alias.as_ref().map(|a| id(a)),
                window: match &it.win { WinSel::None => None, WinSel::Name(n) => Some(WindowSelectType::Name(id(n))), WinSel::Query(w) => Some(WindowSelectType::Query(w.build())) } });
        }
        for t in &self.from { s.from(t.build()); }
        for h in &self.hints {
            let sc = match h.scope { 0 => IndexHintScope::Join, 1 => IndexHintScope::OrderBy, 2 => IndexHintScope::GroupBy, _ => IndexHintScope::All };
            match h.ty { 0 => { s.use_index(Alias::new(h.index.as_str()), sc); } 1 => { s.ignore_index(Alias::new(h.index.as_str()), sc); } _ => { s.force_index(Alias::new(h.index.as_str()), sc); } }
        }
        if let Some(sa) = &self.sample { s.table_sample(if sa.method == 0 { SampleMethod::BERNOULLI } else { SampleMethod::SYSTEM }, sa.pct, sa.rep); }
        for j in &self.joins {
            let on = match &j.on { Holder::Cond(c) => c.build(), _ => panic!("join condition shape") };
            match (&j.t, j.lateral) {
                (TRef::Sub(q, a), true) => { s.join_lateral(join_type(j.ty), q.build(), Alias::new(a.as_str()), on); }
                (t, _) => { s.join(join_type(j.ty), t.build(), on); }
            }
        }
        add_where!(s, &self.wher);
        s.add_group_by(self.groups.iter().map(Ex::build).collect::<Vec<_>>());
        if let Holder::Cond(c) = &self.having { s.cond_having(c.build()); }
        for (t, u) in &self.unions { s.union(union_type(*t), u.build()); }
        add_orders!(s, &self.orders);
        if let Some(n) = self.limit { s.limit(n); }
        if let Some(n) = self.offset { s.offset(n); }
        if let Some(l) = &self.lock {
            let ty = match l.ty { 0 => LockType::Update, 1 => LockType::NoKeyUpdate, 2 => LockType::Share, _ => LockType::KeyShare };
            let tables: Vec<TableRef> = l.tables.iter().map(TName::build).collect();
            match l.behavior {
                None => { s.lock_with_tables(ty, tables); }
                Some(b) => { s.lock_with_tables_behavior(ty, tables, if b == 0 { LockBehavior::Nowait } else { LockBehavior::SkipLocked }); }
            }
        }
        if let Some((n, w)) = &self.window { s.window(Alias::new(n.as_str()), w.build()); }
        s
    }
}
impl WithC {
    pub fn build(&self) -> WithClause {
        let mut w = WithClause::new();
        w.recursive(self.recursive);
        if let Some((breadth, e, a)) = &self.search {
            w.search(Search::new_from_order_and_expr(if *breadth { SearchOrder::BREADTH } else { SearchOrder::DEPTH }, SelectExpr { expr: e.build(), alias: Some(id(a)), window: None }));
        }
        if let Some((e, s, u)) = &self.cycle { w.cycle(Cycle::new_from_expr_set_using(e.build(), Alias::new(s.as_str()), Alias::new(u.as_str()))); }
        for c in &self.ctes {
            let mut cte = CommonTableExpression::new();
            cte.table_name(Alias::new(c.name.as_str()));
            cte.columns(c.cols.iter().map(|x| Alias::new(x.as_str())).collect::<Vec<_>>());
            if let Some(m) = c.mat { cte.materialized(m); }
            match &c.q {
                Query::Sel(x) => { cte.query(x.build()); } Query::Ins(x) => { cte.query(x.build()); } Query::Upd(x) => { cte.query(x.build()); }
                Query::Del(x) => { cte.query(x.build()); } Query::With(w2, q2) => { cte.query(build_with_query(w2, q2)); }
            }
            w.cte(cte);
        }
        w
    }
}
impl Insert {
    pub fn build(&self) -> InsertStatement {
        let mut s = InsertStatement::new();
        if let Some(w) = &self.with { s.with_cte(w.build()); }
        if self.replace { s.replace(); }
        if let Some(t) = &self.table { s.into_table(t.build()); }
        s.columns(self.columns.iter().map(|c| Alias::new(c.as_str())).collect::<Vec<_>>());
        match &self.source {
            Source::None => {}
            Source::Values(rows) => { for r in rows { s.values_panic(r.iter().map(Ex::build).collect::<Vec<_>>()); } }
            Source::Select(q) => { s.select_from(q.build()).expect("select_from"); }
        }
        if let Some(oc) = &self.on_conflict {
            let cols: Vec<Alias> = oc.targets.iter().filter_map(|t| if let Target::Col(c) = t { Some(Alias::new(c.as_str())) } else { None }).collect();
            let mut o = if cols.is_empty() { OnConflict::new() } else { OnConflict::columns(cols) };
            for t in &oc.targets { if let Target::Expr(e) = t { o.expr(e.build()); } }
            if let Holder::Cond(c) = &oc.target_where { o.target_cond_where(c.build()); }
            match &oc.action {
                Action::None => {}
                Action::Nothing(pk) => { if pk.is_empty() { o.do_nothing(); } else { o.do_nothing_on(pk.iter().map(|c| Alias::new(c.as_str())).collect::<Vec<_>>()); } }
                Action::Update(us) => { for u in us { match u { Upd::Col(c) => { o.update_column(Alias::new(c.as_str())); } Upd::Expr(c, e) => { o.value(Alias::new(c.as_str()), e.build()); } } } }
            }
            if let Holder::Cond(c) = &oc.action_where { o.action_cond_where(c.build()); }
            s.on_conflict(o);
        }
        if let Some(r) = build_ret(&self.returning) { s.returning(r); }
        if let Some(n) = self.default_values { s.or_default_values_many(n); }
        s
    }
}
impl Update {
    pub fn build(&self) -> UpdateStatement {
        let mut s = UpdateStatement::new();
        if let Some(w) = &self.with { s.with_cte(w.build()); }
        if let Some(t) = &self.table { s.table(t.build()); }
        for (c, e) in &self.sets { s.value(Alias::new(c.as_str()), e.build()); }
        add_where!(s, &self.wher);
        add_orders!(s, &self.orders);
        if let Some(n) = self.limit { s.limit(n); }
        if let Some(r) = build_ret(&self.returning) { s.returning(r); }
        for t in &self.from { s.from(t.build()); }
        s
    }
}
impl Delete {
    pub fn build(&self) -> DeleteStatement {
        let mut s = DeleteStatement::new();
        if let Some(w) = &self.with { s.with_cte(w.build()); }
        if let Some(t) = &self.table { s.from_table(t.build()); }
        add_where!(s, &self.wher);
        add_orders!(s, &self.orders);
        if let Some(n) = self.limit { s.limit(n); }
        if let Some(r) = build_ret(&self.returning) { s.returning(r); }
        s
    }
}
pub fn build_with_query(w: &WithC, q: &Query) -> WithQuery {
    match q {
        Query::Sel(x) => w.build().query(x.build()), Query::Ins(x) => w.build().query(x.build()), Query::Upd(x) => w.build().query(x.build()),
        Query::Del(x) => w.build().query(x.build()), Query::With(w2, q2) => w.build().query(build_with_query(w2, q2)),
    }
}
/// a statement built through the public API, with every public rendering entry point
pub enum Real { Sel(SelectStatement), Ins(InsertStatement), Upd(UpdateStatement), Del(DeleteStatement), With(WithQuery) }
macro_rules! each_real { ($self:expr, $s:ident => $body:expr) => { match $self { Real::Sel($s) => $body, Real::Ins($s) => $body, Real::Upd($s) => $body, Real::Del($s) => $body, Real::With($s) => $body } }; }
impl Real {
    pub fn build(&self, b: B) -> (String, Values) {
        each_real!(self, s => match b { B::Mysql => s.build(MysqlQueryBuilder), B::Postgres => s.build(PostgresQueryBuilder), B::Sqlite => s.build(SqliteQueryBuilder) })
    }
    pub fn to_string(&self, b: B) -> String {
        each_real!(self, s => match b { B::Mysql => s.to_string(MysqlQueryBuilder), B::Postgres => s.to_string(PostgresQueryBuilder), B::Sqlite => s.to_string(SqliteQueryBuilder) })
    }
    pub fn build_any(&self, b: B) -> (String, Values) { let q = crate::sq::qb(b); each_real!(self, s => s.build_any(&*q)) }
    pub fn build_collect(&self, b: B) -> (String, Values) {
        let q0 = crate::sq::qb(b);
        let (ph, numbered) = q0.placeholder();
        let mut w = SqlWriterValues::new(ph, numbered);
        let text = each_real!(self, s => match b { B::Mysql => s.build_collect(MysqlQueryBuilder, &mut w), B::Postgres => s.build_collect(PostgresQueryBuilder, &mut w), B::Sqlite => s.build_collect(SqliteQueryBuilder, &mut w) });
        let (t2, vals) = w.into_parts();
        assert_eq!(text, t2, "build_collect returned a different text than the writer holds");
        (text, vals)
    }
    pub fn build_collect_any(&self, b: B) -> (String, Values) {
        let q = crate::sq::qb(b);
        let (ph, numbered) = q.placeholder();
        let mut w = SqlWriterValues::new(ph, numbered);
        let text = each_real!(self, s => s.build_collect_any(&*q, &mut w));
        let (_, vals) = w.into_parts();
        (text, vals)
    }
    /// inline rendering through `build_collect` / `build_collect_any` into a `String` writer
    pub fn collect_string(&self, b: B, any: bool) -> String {
        let q = crate::sq::qb(b);
        let mut w = String::new();
        if any { each_real!(self, s => s.build_collect_any(&*q, &mut w)) }
        else { each_real!(self, s => match b { B::Mysql => s.build_collect(MysqlQueryBuilder, &mut w), B::Postgres => s.build_collect(PostgresQueryBuilder, &mut w), B::Sqlite => s.build_collect(SqliteQueryBuilder, &mut w) }) }
    }
    /// the required methods themselves: `build_collect_into` / `build_collect_any_into` append to a writer that already holds text
    pub fn collect_into_string(&self, b: B, any: bool, prefix: &str) -> String {
        let q = crate::sq::qb(b);
        let mut w = String::from(prefix);
        if any { each_real!(self, s => s.build_collect_any_into(&*q, &mut w)) }
        else { each_real!(self, s => match b { B::Mysql => s.build_collect_into(MysqlQueryBuilder, &mut w), B::Postgres => s.build_collect_into(PostgresQueryBuilder, &mut w), B::Sqlite => s.build_collect_into(SqliteQueryBuilder, &mut w) }) }
        w
    }
    pub fn collect_into_values(&self, b: B, any: bool) -> (String, Values) {
        let q = crate::sq::qb(b);
        let (ph, numbered) = q.placeholder();
        let mut w = SqlWriterValues::new(ph, numbered);
        if any { each_real!(self, s => s.build_collect_any_into(&*q, &mut w)) }
        else { each_real!(self, s => match b { B::Mysql => s.build_collect_into(MysqlQueryBuilder, &mut w), B::Postgres => s.build_collect_into(PostgresQueryBuilder, &mut w), B::Sqlite => s.build_collect_into(SqliteQueryBuilder, &mut w) }) }
        w.into_parts()
    }
    pub fn debug(&self) -> String { each_real!(self, s => format!("{s:?}")) }
}
impl Query {
    pub fn build(&self) -> SubQueryStatement {
        match self {
            Query::Sel(s) => s.build().into_sub_query_statement(), Query::Ins(s) => s.build().into_sub_query_statement(),
            Query::Upd(s) => s.build().into_sub_query_statement(), Query::Del(s) => s.build().into_sub_query_statement(),
            Query::With(w, q) => build_with_query(w, q).into_sub_query_statement(),
        }
    }
    pub fn real(&self) -> Real {
        match self { Query::Sel(s) => Real::Sel(s.build()), Query::Ins(s) => Real::Ins(s.build()), Query::Upd(s) => Real::Upd(s.build()), Query::Del(s) => Real::Del(s.build()), Query::With(w, q) => Real::With(build_with_query(w, q)) }
    }
}

// ---------------------------------------------------------------- generator

pub const NAMES: &[&str] = &["a", "b", "id", "name", "glyph", "t1", "t2", "font_size", "x y", "we\"ird", "ti`ck", "sel?ect", "$1", "ta''b", "Ünï", "ORDER", "a.b", "back\\slash"];
pub const PLAIN_NAMES: &[&str] = &["a", "b", "id", "name", "glyph", "t1", "t2", "font_size", "c3", "tbl"];
pub const CUSTOMS: &[&str] = &["1 + 1", "now()", "'lit ? $1'", "\"q?\"", "a.b", "x", "E", "`bt`", "1", "NULL", "(2)", "col -- c", "a ? b", "$2", "'it''s'"];
pub const CLOSED_CUSTOMS: &[&str] = &["1 + 1", "now()", "'lit ? $1'", "a.b", "x", "1", "NULL", "(2)", "'it''s'", "count(*)"];
pub const TYPES: &[&str] = &["text", "integer", "my_enum", "FontSize", "varchar(10)", "t[]", "we\"ird[]"];
/// type names written verbatim (`CAST(x AS <raw>)`): in tame mode only text that is closed in every dialect
pub const CLOSED_TYPES: &[&str] = &["text", "integer", "my_enum", "varchar(10)", "decimal(10, 2)"];

fn gen_date(r: &mut SplitMix64) -> chrono::NaiveDate { chrono::NaiveDate::from_ymd_opt(*r.pick(&[1, 987, 1969, 1970, 2000, 2024, 9999]), 1 + r.below(12) as u32, 1 + r.below(28) as u32).unwrap() }
fn gen_time(r: &mut SplitMix64) -> chrono::NaiveTime { chrono::NaiveTime::from_hms_micro_opt(r.below(24) as u32, r.below(60) as u32, r.below(60) as u32, if r.chance(1, 3) { r.below(1_000_000) as u32 } else { 0 }).unwrap() }
fn gen_offset(r: &mut SplitMix64) -> chrono::FixedOffset { chrono::FixedOffset::east_opt((r.below(27) as i32 - 13) * 3600 + (r.below(2) as i32) * 1800).unwrap() }
fn gen_tdate(r: &mut SplitMix64) -> time::Date { time::Date::from_calendar_date(*r.pick(&[1, 987, 1969, 1970, 2000, 2024, 9999]), time::Month::try_from(1 + r.below(12) as u8).unwrap(), 1 + r.below(28) as u8).unwrap() }
fn gen_ttime(r: &mut SplitMix64) -> time::Time { time::Time::from_hms_micro(r.below(24) as u8, r.below(60) as u8, r.below(60) as u8, if r.chance(1, 2) { r.below(1_000_000) as u32 } else { 0 }).unwrap() }
pub struct Gen { pub rng: SplitMix64, pub b: B, /// only constructs every backend renders without panicking and whose raw text is closed
    pub tame: bool,
    /// a template with a placeholder inside `[..]` was generated (known finding C01-template-mark-in-brackets)
    pub bracket_mark: bool,
    /// caller-supplied raw text containing quoted text was generated (outside the plain-raw hypothesis of the C01 / C02 theorems)
    pub raw_quoted: bool,
    /// C08: only caller-supplied text that is a single expression atom, no templates, complete clauses
    pub plain: bool,
    /// constructs whose rendering is a recorded finding
    pub named_window: bool, pub multi_from_update: bool, pub do_nothing_no_keys: bool }

impl Gen {
    pub fn new(rng: SplitMix64, b: B, tame: bool) -> Self { Gen { rng, b, tame, bracket_mark: false, raw_quoted: false, plain: false, named_window: false, multi_from_update: false, do_nothing_no_keys: false } }
    fn name(&mut self) -> String { if self.tame || self.rng.chance(3, 4) { self.rng.pick(PLAIN_NAMES).to_string() } else { self.rng.pick(NAMES).to_string() } }
    pub fn value(&mut self) -> Val {
        let r = &mut self.rng;
        let v: Value = match r.below(38) {
            0 => Value::Int(Some(r.below(2000) as i32 - 1000)), 1 => Value::Int(None), 2 => Value::BigInt(Some(r.next() as i64)), 3 => Value::BigUnsigned(Some(r.next())),
            4 => Value::BigUnsigned(Some(u64::MAX - r.below(3))), 5 => Value::TinyInt(Some(r.next() as i8)), 6 => Value::SmallUnsigned(Some(r.next() as u16)),
            7 => Value::Bool(Some(r.chance(1, 2))), 8 => Value::Bool(None),
            9 => Value::String(Some(Box::new(r.pick(&["", "abc", "it's", "a\\b", "q?m", "$1", "new\nline", "tab\t", "\"dq\"", "`bt`", "ünï", "a'b\\c?$2", "100%", "eof\u{1a}", "bs\u{8}", "cr\r", "esc\u{1b}"]).to_string()))),
            10 => Value::String(Some(Box::new(random_string(r, 6).replace('\0', "")))), /* NUL: not representable in Postgres / SQLite literals (C03) */ 11 => Value::String(None),
            12 => Value::Char(Some(*r.pick(&['x', '\'', '\\', '?', 'é', '\n']))),
            13 => Value::Bytes(Some(Box::new((0..r.below(5)).map(|_| r.next() as u8).collect()))),
            14 => Value::Double(Some(*r.pick(&[0.0, 1.5, -2.25, 1e10, 3.0e-5, 123456.789, 7.0, -0.0, 1e21, 2.5e-7]))), 15 => Value::Float(Some(*r.pick(&[0.5f32, -1.0, 2.75, 3.0, 0.1]))),
            16 => Value::Double(None),
            17 => Value::ChronoDate(Some(Box::new(gen_date(r)))),
            18 => Value::Uuid(Some(Box::new(uuid::Uuid::from_u128(((r.next() as u128) << 64) | r.next() as u128)))),
            19 => Value::Decimal(Some(Box::new(rust_decimal::Decimal::new(r.below(100000) as i64 - 50000, r.below(4) as u32)))),
            // JSON documents of every shape: an object, an array, and the scalars (a top-level string is still a JSON document: "text")
            20 => Value::Json(Some(Box::new(match r.below(7) { 0 => serde_json::json!("hello"), 1 => serde_json::json!("12"), 2 => serde_json::json!(12), 3 => serde_json::json!(null), 4 => serde_json::json!(true),
                5 => serde_json::json!(["a", 1, null]), _ => serde_json::json!({"k": r.below(10), "s": "it's"}) }))),
            21 => Value::Unsigned(Some(r.next() as u32)), 22 => Value::SmallInt(Some(r.next() as i16)),
            23 => Value::ChronoTime(Some(Box::new(gen_time(r)))),
            24 => Value::ChronoDateTime(Some(Box::new(gen_date(r).and_time(gen_time(r))))),
            25 => Value::ChronoDateTimeUtc(Some(Box::new(gen_date(r).and_time(gen_time(r)).and_utc()))),
            26 => Value::ChronoDateTimeWithTimeZone(Some(Box::new(gen_date(r).and_time(gen_time(r)).and_utc().with_timezone(&gen_offset(r))))),
            27 => Value::ChronoDateTimeLocal(Some(Box::new(gen_date(r).and_time(gen_time(r)).and_utc().with_timezone(&chrono::Local)))),
            28 => Value::TimeDate(Some(Box::new(gen_tdate(r)))),
            29 => Value::TimeTime(Some(Box::new(gen_ttime(r)))),
            30 => Value::TimeDateTime(Some(Box::new(time::PrimitiveDateTime::new(gen_tdate(r), gen_ttime(r))))),
            31 => Value::TimeDateTimeWithTimeZone(Some(Box::new(time::PrimitiveDateTime::new(gen_tdate(r), gen_ttime(r)).assume_offset(time::UtcOffset::from_whole_seconds((r.below(27) as i32 - 13) * 3600 + (r.below(2) as i32) * 1800).unwrap())))),
            32 => Value::BigDecimal(Some(Box::new(bigdecimal::BigDecimal::new((r.below(2_000_000) as i64 - 1_000_000).into(), r.below(5) as i64)))),
            33 => Value::IpNetwork(Some(Box::new(ipnetwork::IpNetwork::new(std::net::IpAddr::V4(std::net::Ipv4Addr::from(r.next() as u32)), r.below(33) as u8).unwrap()))),
            34 => Value::MacAddress(Some(Box::new(mac_address::MacAddress::new([r.next() as u8, r.next() as u8, r.next() as u8, r.next() as u8, r.next() as u8, r.next() as u8])))),
            // the NULL of every variant the statement model knows
            35 => match r.below(24) {
                0 => Value::TinyInt(None), 1 => Value::SmallInt(None), 2 => Value::BigInt(None), 3 => Value::TinyUnsigned(None), 4 => Value::SmallUnsigned(None), 5 => Value::Unsigned(None),
                6 => Value::BigUnsigned(None), 7 => Value::Float(None), 8 => Value::Char(None), 9 => Value::Bytes(None), 10 => Value::Json(None), 11 => Value::ChronoDate(None), 12 => Value::ChronoTime(None),
                13 => Value::ChronoDateTime(None), 14 => Value::ChronoDateTimeUtc(None), 15 => Value::ChronoDateTimeLocal(None), 16 => Value::ChronoDateTimeWithTimeZone(None), 17 => Value::TimeDate(None),
                18 => Value::TimeTime(None), 19 => Value::TimeDateTime(None), 20 => Value::TimeDateTimeWithTimeZone(None), 21 => Value::Uuid(None),
                22 => r.pick(&[Value::Decimal(None), Value::BigDecimal(None)]).clone(), _ => r.pick(&[Value::IpNetwork(None), Value::MacAddress(None)]).clone(),
            },
            36 => Value::TinyUnsigned(Some(r.next() as u8)),
            _ => Value::Int(Some(r.below(10) as i32)),
        };
        val(v)
    }
    fn small_int(&mut self) -> Val { val(Value::Int(Some(self.rng.below(10) as i32))) }
    pub fn colref(&mut self) -> ColRef {
        match self.rng.below(10) { 0 => ColRef::TCol(self.name(), self.name()), 1 => ColRef::STCol(self.name(), self.name(), self.name()), 2 => ColRef::Star, 3 => ColRef::TStar(self.name()), _ => ColRef::Col(self.name()) }
    }
    fn plain_col(&mut self) -> ColRef { if self.rng.chance(1, 4) { ColRef::TCol(self.name(), self.name()) } else { ColRef::Col(self.name()) } }
    pub fn op(&mut self) -> Op {
        let ids = crate::c05::ops_of(self.b);
        if !self.tame && self.rng.chance(1, 40) { const CO: &[&str] = &["!=", "<=>", "||", "DIV", "IS DISTINCT FROM", "?|", "$"]; return Op::Custom(*self.rng.pick(CO)); }
        if !self.tame && self.rng.chance(1, 60) { return Op::Std(*self.rng.pick(&[30u32, 35, 44, 60, 63, 47])); } // possibly another backend's operator: the crate panics
        // plain: BETWEEN / LIKE / AS only in their proper shapes (generated separately), never as a bare binary operator
        loop { let i = *self.rng.pick(&ids); if i != 27 && i != 26 && !(self.plain && [2u32, 3, 8, 9, 25, 30, 31].contains(&i)) { return Op::Std(i); } }
    }
    fn atom(&mut self) -> Ex {
        match self.rng.below(100) {
            0..=39 => Ex::Col(self.plain_col()), 40..=64 => Ex::Val(self.value()), 65..=69 => Ex::Const(self.value()),
            70..=74 => Ex::Kw(match self.rng.below(5) { 0 => Kw::Null, 1 => Kw::CurrentDate, 2 => Kw::CurrentTime, 3 => Kw::CurrentTimestamp, _ => Kw::Custom(if self.plain { self.rng.pick(&["DEFAULT", "MAXVALUE"]).to_string() } else { self.rng.pick(&["DEFAULT", "MAXVALUE", "k w"]).to_string() }) }),
            75..=81 if self.plain => Ex::Cust(self.rng.pick(&["now()", "x", "1", "NULL", "count(*)", "a.b", "'it''s'"]).to_string()),
            75..=81 => { let c = if self.tame { self.rng.pick(CLOSED_CUSTOMS).to_string() } else { self.rng.pick(CUSTOMS).to_string() }; if c.contains(['\'', '"', '`', '?', '$', '[']) { self.raw_quoted = true; } Ex::Cust(c) }
            82..=85 => { let n = self.rng.below(4) as usize; Ex::Vals((0..n).map(|_| self.value()).collect()) }
            86..=88 if self.plain => Ex::Col(self.plain_col()),
            86..=88 => Ex::Col(ColRef::Star),
            89..=91 if self.plain => Ex::Col(self.plain_col()),
            89..=91 => { let t = self.rng.pick(&["cw", "now()", "'a?b'", "1"]).to_string(); if t.contains('\'') { self.raw_quoted = true; } Ex::CustW(t, vec![]) }
            _ => Ex::Val(self.small_int()),
        }
    }
    fn template(&mut self, depth: u32) -> Ex {
        // (template, number of values it designates) per placeholder style
        let q: &[(&str, usize)] = &[("? + ?", 2), ("f(?, ?, ?)", 3), ("a[?]", 1), ("'??' = ?", 1), ("?? ?", 1), ("x = ? AND 'q?' <> ?", 2), ("?", 1), ("\"id?\" = ?", 1), ("m[idx[1]] = ?", 1), ("ARRAY[[1,2],[3,4]] @> ? AND s < ?", 2),
            // a positional mark with a word glued to it is still a mark followed by that word
            ("x BETWEEN ?AND ?", 2), ("d + INTERVAL ?DAY", 1), ("?x", 1)];
        let d: &[(&str, usize)] = &[("$1 + $2", 2), ("$2 || $1", 2), ("f($1, $1)", 1), ("$ + $", 2), ("'$1' = $1", 1), ("$$ $1", 1), ("a[$1]", 1), ("$1", 1), ("$3, $1", 3), ("ARRAY[[1,2],[3,4]] @> $1 AND s < $2", 2), ("lookup[pos[1]] = $2 AND tag = $1", 2), ("x = $ AND y = $2", 2)];
        // tame: templates whose literal text is closed in this dialect (`[` opens an identifier in SQLite;
        // `??` / `$$` are by design a bare mark in the output)
        let tq: &[(&str, usize)] = &[("? + ?", 2), ("f(?, ?, ?)", 3), ("x = ? AND 'q?' <> ?", 2), ("?", 1), ("\"id?\" = ?", 1)];
        let tqb: &[(&str, usize)] = &[("a[?]", 1), ("m[idx[1]] = ?", 1), ("ARRAY[[1,2],[3,4]] @> ? AND s < ?", 2)];
        let td: &[(&str, usize)] = &[("$1 + $2", 2), ("$2 || $1", 2), ("f($1, $1)", 1), ("$ + $", 2), ("'$1' = $1", 1), ("a[$1]", 1), ("$1", 1), ("$3, $1", 3), ("ARRAY[[1,2],[3,4]] @> $1 AND s < $2", 2), ("lookup[pos[1]] = $2 AND tag = $1", 2), ("x = $ AND y = $2", 2)];
        let (t, n) = *if self.tame {
            if self.b == B::Postgres { self.rng.pick(td) } else if self.b == B::Mysql && self.rng.chance(1, 3) { self.rng.pick(tqb) } else { self.rng.pick(tq) }
        } else if self.b == B::Postgres { self.rng.pick(d) } else { self.rng.pick(q) };
        if t == "a[?]" || t == "a[$1]" { self.bracket_mark = true; }
        if t.contains(['\'', '"', '`']) { self.raw_quoted = true; }
        let n = if !self.tame && self.rng.chance(1, 25) { n.saturating_sub(1) } else if self.rng.chance(1, 12) { n + 1 } else { n };
        Ex::CustW(t.to_string(), (0..n).map(|_| self.ex(depth.saturating_sub(1))).collect())
    }
    pub fn ex(&mut self, depth: u32) -> Ex {
        if depth == 0 || self.rng.chance(1, 4) { return self.atom(); }
        let d = depth - 1;
        match self.rng.below(100) {
            0..=34 => { let (l, o, r) = (self.ex(d), self.op(), self.ex(d)); Ex::Bin(Box::new(l), o, Box::new(r)) }
            35..=39 => { let neg = self.rng.chance(1, 3); let (x, lo, hi) = (self.ex(d), self.ex(d), self.ex(d)); Ex::Bin(Box::new(x), Op::Std(if neg { 9 } else { 8 }), Box::new(Ex::Bin(Box::new(lo), Op::Std(0), Box::new(hi)))) }
            40..=43 => { // LIKE with or without ESCAPE
                let pat = Ex::Val(val(Value::String(Some(Box::new(self.rng.pick(&["a%", "%b_", "10\\%", "x|%"]).to_string())))));
                let rhs = if self.rng.chance(1, 2) { Ex::Bin(Box::new(pat), Op::Std(26), Box::new(Ex::Const(val(Value::Char(Some(*self.rng.pick(&['\\', '|', '!']))))))) } else { pat };
                Ex::Bin(Box::new(self.ex(d)), Op::Std(if self.rng.chance(1, 4) { 3 } else { 2 }), Box::new(rhs))
            }
            44..=49 => { // IN / NOT IN: tuple (sometimes empty), value list, or sub-query
                let o = Op::Std(if self.rng.chance(1, 3) { 7 } else { 6 });
                let rhs = match self.rng.below(6) { 0 => Ex::Tuple(vec![]), 1 | 2 => { let n = 1 + self.rng.below(3) as usize; Ex::Tuple((0..n).map(|_| self.ex(d.min(1))).collect()) } 3 => { let n = 1 + self.rng.below(3) as usize; Ex::Vals((0..n).map(|_| self.value()).collect()) } _ => Ex::Subq(None, Box::new(Query::Sel(self.select(d.min(2), false)))) };
                Ex::Bin(Box::new(self.ex(d)), o, Box::new(rhs))
            }
            50..=54 => Ex::Not(Box::new(self.ex(d))),
            55..=66 => self.func(d),
            67..=70 => { let n = self.rng.below(4) as usize; Ex::Tuple((0..n).map(|_| self.ex(d)).collect()) }
            71..=76 if self.plain => {
                if self.b != B::Sqlite && self.rng.chance(1, 3) { // x <cmp> ANY | SOME | ALL (sub-query)
                    let o = Some(1 + self.rng.below(3) as u8); let cmp = *self.rng.pick(&[10u32, 11, 12, 13, 14, 15]);
                    let (l, q) = (self.ex(d), self.query(d.min(2), false));
                    Ex::Bin(Box::new(l), Op::Std(cmp), Box::new(Ex::Subq(o, Box::new(q))))
                } else { let o = if self.rng.chance(1, 2) { None } else { Some(0u8) }; Ex::Subq(o, Box::new(self.query(d.min(2), false))) }
            }
            71..=76 => { let o = match self.rng.below(8) { 0 | 1 | 2 => None, 3 | 4 => Some(0u8), x => if self.b == B::Sqlite && (self.tame || !self.rng.chance(1, 10)) { Some(0u8) } else { Some((x - 4) as u8) } }; Ex::Subq(o, Box::new(self.query(d.min(2), false))) }
            77..=82 => { let n = 1 + self.rng.below(3) as usize; let ws = (0..n).map(|_| (self.cond(d), self.ex(d))).collect(); let el = if self.rng.chance(1, 2) { Some(Box::new(self.ex(d))) } else { None }; Ex::Case(ws, el) }
            83..=86 => Ex::Enum(self.rng.pick(TYPES).to_string(), Box::new(self.ex(d))),
            87..=92 if self.plain => self.atom(),
            87..=92 => self.template(depth),
            93..=95 => { let t = if self.tame { self.rng.pick(CLOSED_TYPES).to_string() } else { self.rng.pick(TYPES).to_string() }; Ex::Func(Fun::Std(11), false, vec![Ex::Bin(Box::new(self.ex(d)), Op::Std(25), Box::new(Ex::Cust(t)))]) }
            _ => { let (l, r) = (self.ex(d), self.ex(d)); Ex::Bin(Box::new(l), Op::Std(*self.rng.pick(&[0u32, 1, 0, 1, 10, 16])), Box::new(r)) }
        }
    }
    fn func(&mut self, d: u32) -> Ex {
        let f = match self.rng.below(12) {
            0 => Fun::Custom(if self.plain { self.rng.pick(&["my_fn", "json_extract", "date"]).to_string() } else { self.rng.pick(&["my_fn", "json_extract", "f g", "date"]).to_string() }),
            1 if self.b == B::Postgres || (!self.tame && self.rng.chance(1, 8)) => Fun::Pg(*self.rng.pick(&[0u32, 1, 2, 3, 4, 5, 6, 7, 8, 9, 10, 11, 12, 13, 14, 15])),
            _ => loop { let i = self.rng.below(19) as u32; if i != 11 { break Fun::Std(i); } },
        };
        let n = fn_min_args(&f) + if self.rng.chance(1, 4) { self.rng.below(3) as usize } else { 0 };
        let n = if matches!(f, Fun::Std(16) | Fun::Pg(8)) { 0 } else { n };
        let distinct = matches!(f, Fun::Std(6) | Fun::Pg(11)) && self.rng.chance(1, 3);
        let mut args: Vec<Ex> = (0..n).map(|_| self.ex(d)).collect();
        match f {
            Fun::Pg(0..=4) if self.rng.chance(1, 3) => args.insert(0, Ex::Val(val(Value::Unsigned(Some(self.rng.below(20000) as u32))))),
            Fun::Pg(9) => { let k = self.rng.below(3) as usize; args = (0..2 * k).map(|j| if j % 2 == 0 { Ex::Val(val(Value::String(Some(Box::new(format!("k{j}")))))) } else { self.ex(d) }).collect(); }
            Fun::Pg(12) => { let u = *self.rng.pick(&["microseconds", "milliseconds", "second", "minute", "hour", "day", "week", "month", "quarter", "year", "decade", "century", "millennium"]); args[0] = Ex::Val(val(Value::String(Some(Box::new(u.to_string()))))); }
            _ => {}
        }
        Ex::Func(f, distinct, args)
    }
    pub fn cond(&mut self, depth: u32) -> Cond {
        let n = match self.rng.below(10) { 0 => 0, 1 | 2 | 3 => 1, 4 | 5 | 6 => 2, 7 | 8 => 3, _ => 4 };
        let neg = self.rng.chance(1, 5);
        let any = self.rng.chance(1, 3);
        let items = (0..n).map(|_| {
            if depth > 0 && self.rng.chance(1, 4) {
                // `Condition::add` unwraps a non-negated single-member condition: never generate one
                let mut c = self.cond(depth - 1);
                if c.items.len() == 1 && !c.neg { c.neg = true; }
                Item::C(c)
            } else { Item::E(self.ex(depth.min(2))) }
        }).collect();
        Cond { neg, any, items }
    }
    fn holder(&mut self, depth: u32, allow_chain: bool) -> Holder {
        match self.rng.below(10) {
            0..=2 => Holder::Empty,
            3 | 4 if allow_chain => { let n = 1 + self.rng.below(3) as usize; Holder::Chain((0..n).map(|_| (self.rng.chance(1, 3), self.ex(depth.min(2)))).collect()) }
            _ => Holder::Cond(self.cond(depth)),
        }
    }
    fn tname(&mut self) -> TName {
        let n = match self.rng.below(8) { 0 => 2, 1 => 3, _ => 1 };
        TName { parts: (0..n).map(|_| self.name()).collect(), alias: if self.rng.chance(1, 4) { Some(self.name()) } else { None } }
    }
    fn tref(&mut self, depth: u32) -> TRef {
        if depth == 0 { return TRef::Named(self.tname()); }
        match self.rng.below(12) {
            0 | 1 => TRef::Sub(Box::new(self.select(depth - 1, false)), self.name()),
            2 => { let w = 1 + self.rng.below(3) as usize; let n = 1 + self.rng.below(3) as usize; TRef::Vals((0..n).map(|_| (0..w).map(|_| self.value()).collect()).collect(), self.name()) }
            3 => { let n = self.rng.below(3) as usize; TRef::Func(Fun::Custom(self.rng.pick(&["generate_series", "json_each", "unnest"]).to_string()), false, (0..n).map(|_| self.ex(1)).collect(), self.name()) }
            _ => TRef::Named(self.tname()),
        }
    }
    fn order_item(&mut self, depth: u32) -> OrderItem {
        let kind = match self.rng.below(8) { 0 => { let n = if self.plain { 1 + self.rng.below(3) as usize } else { self.rng.below(4) as usize }; OrderKind::Field((0..n).map(|_| self.value()).collect()) } 1 | 2 | 3 => OrderKind::Desc, _ => OrderKind::Asc };
        OrderItem { e: self.ex(depth.min(1)), kind, nulls_first: match self.rng.below(5) { 0 => Some(true), 1 => Some(false), _ => None } }
    }
    fn orders(&mut self, depth: u32, p: u64) -> Vec<OrderItem> { if self.rng.chance(p, 10) { let n = 1 + self.rng.below(3) as usize; (0..n).map(|_| self.order_item(depth)).collect() } else { vec![] } }
    fn bound(&mut self) -> Bound { match self.rng.below(5) { 0 => Bound::UP, 1 => Bound::P(self.rng.below(5) as u32), 2 => Bound::CR, 3 => Bound::F(self.rng.below(5) as u32), _ => Bound::UF } }
    fn window(&mut self, depth: u32) -> Window {
        let np = self.rng.below(3) as usize;
        Window { partition: (0..np).map(|_| self.ex(depth.min(1))).collect(), orders: self.orders(depth, 6),
            frame: if self.rng.chance(1, 2) { Some(FrameC { rows: self.rng.chance(1, 2), start: self.bound(), stop: if self.rng.chance(1, 2) { Some(self.bound()) } else { None } }) } else { None } }
    }
    pub fn with_clause(&mut self, depth: u32) -> WithC {
        let n = 1 + self.rng.below(2) as usize;
        let recursive = self.rng.chance(1, 3);
        let ctes = (0..n).map(|_| { let nc = self.rng.below(3) as usize; Cte { name: self.name(), cols: (0..nc).map(|_| self.name()).collect(), mat: match self.rng.below(4) { 0 => Some(true), 1 => Some(false), _ => None }, q: self.query(depth, false) } }).collect();
        WithC { recursive, search: if recursive && self.rng.chance(1, 2) { Some((self.rng.chance(1, 2), self.ex(1), self.name())) } else { None },
            cycle: if recursive && self.rng.chance(1, 2) { Some((self.ex(1), self.name(), self.name())) } else { None }, ctes }
    }
    fn opt_with(&mut self, depth: u32, top: bool) -> Option<WithC> { if self.plain && !top { return None; } if depth > 0 && self.rng.chance(1, if top { 5 } else { 12 }) { Some(self.with_clause(depth - 1)) } else { None } }
    pub fn select(&mut self, depth: u32, top: bool) -> Select {
        let mut s = Select::default();
        s.with = self.opt_with(depth, top);
        s.distinct = match self.rng.below(12) { 0 => Some(Distinct::Distinct), 1 => { let n = 1 + self.rng.below(2) as usize; Some(Distinct::On((0..n).map(|_| self.plain_col()).collect())) } _ => None };
        let n = 1 + self.rng.below(3) as usize;
        for _ in 0..n {
            let win = if depth > 0 && self.rng.chance(1, 8) { if self.rng.chance(1, 3) { WinSel::Name(self.name()) } else { WinSel::Query(self.window(depth - 1)) } } else { WinSel::None };
            s.selects.push(SelItem { e: self.ex(depth.min(3)), win, alias: if self.rng.chance(1, 4) { Some(self.name()) } else { None } });
        }
        // `SELECT ALL(x) ..` reads as the ALL quantifier followed by `(x)`, not as the Postgres function ALL: a select list that
        // starts with that function is not a statement of the dialect (plain generator: use ANY there)
        if self.plain && s.distinct.is_none() {
            fn leftmost(e: &mut Ex) -> &mut Ex { match e { Ex::Bin(l, _, _) => leftmost(l), x => x } }
            if let Some(first) = s.selects.first_mut() { if let Ex::Func(f @ Fun::Pg(15), _, _) = leftmost(&mut first.e) { *f = Fun::Pg(13); } }
        }
        if self.rng.chance(9, 10) {
            let nf = if self.rng.chance(1, 8) { 2 } else { 1 };
            for _ in 0..nf { s.from.push(self.tref(depth)); }
            if self.b == B::Mysql || self.rng.chance(1, 10) { let nh = if self.rng.chance(1, 6) { 1 + self.rng.below(2) } else { 0 }; for _ in 0..nh { s.hints.push(Hint { index: self.name(), ty: self.rng.below(3) as u32, scope: self.rng.below(4) as u32 }); } }
            if (self.b == B::Postgres || self.rng.chance(1, 10)) && self.rng.chance(1, 8) { s.sample = Some(Sample { method: self.rng.below(2) as u32, pct: *self.rng.pick(&[10.0, 0.5, 33.25]), rep: if self.rng.chance(1, 2) { Some(*self.rng.pick(&[1.0, 42.5])) } else { None } }); }
        }
        let nj = if self.rng.chance(1, 3) { 1 + self.rng.below(2) } else { 0 };
        for _ in 0..nj {
            let ty = loop { let t = self.rng.below(6) as u32; if t == 5 && self.b == B::Mysql && (self.tame || !self.rng.chance(1, 10)) { continue; } break t; };
            let lateral = depth > 0 && self.rng.chance(1, 8);
            let t = if lateral { TRef::Sub(Box::new(self.select(depth - 1, false)), self.name()) } else { self.tref(depth.min(1)) };
            s.joins.push(Join { ty, lateral, t, on: Holder::Cond(self.cond(1)) });
        }
        s.wher = self.holder(depth.min(2), true);
        if self.rng.chance(1, 4) { let n = 1 + self.rng.below(2) as usize; s.groups = (0..n).map(|_| self.ex(1)).collect(); }
        if self.rng.chance(1, 5) { s.having = Holder::Cond(self.cond(1)); }
        if depth > 0 && self.rng.chance(1, 6) { let n = 1 + self.rng.below(2) as usize; for _ in 0..n {
            let mut u = self.select(depth - 1, false);
            // SQLite writes the operands of a compound select bare: an operand with its own ORDER BY / LIMIT / set operation is not expressible
            if self.plain && self.b == B::Sqlite { u.unions.clear(); u.orders.clear(); u.limit = None; u.offset = None; u.lock = None; u.window = None; u.with = None; }
            s.unions.push((self.rng.below(4) as u32, u)); } }
        s.orders = self.orders(depth, 3);
        if self.rng.chance(1, 4) { s.limit = Some(*self.rng.pick(&[1u64, 10, 0, u64::MAX, 9223372036854775808])); }
        if self.rng.chance(1, 6) && !(self.plain && self.b != B::Postgres && s.limit.is_none()) { s.offset = Some(self.rng.below(100)); }
        if self.rng.chance(1, 10) { let nt = if self.rng.chance(1, 3) { 1 + self.rng.below(2) } else { 0 }; s.lock = Some(Lock { ty: self.rng.below(4) as u32, tables: (0..nt).map(|_| self.tname()).collect(), behavior: match self.rng.below(3) { 0 => Some(0), 1 => Some(1), _ => None } }); }
        if depth > 0 && self.rng.chance(1, 12) { s.window = Some((self.name(), self.window(depth - 1))); self.named_window = true; }
        s
    }
    fn returning(&mut self) -> Ret {
        match self.rng.below(8) { 0 => Ret::All, 1 => { let n = 1 + self.rng.below(2) as usize; Ret::Cols((0..n).map(|_| self.plain_col()).collect()) } 2 => { let n = 1 + self.rng.below(2) as usize; Ret::Exprs((0..n).map(|_| self.ex(1)).collect()) } _ => Ret::None }
    }
    pub fn insert(&mut self, depth: u32, top: bool) -> Insert {
        let with = if self.plain { None } else { self.opt_with(depth, top) };
        let nc = self.rng.below(4) as usize;
        let columns: Vec<String> = (0..nc).map(|_| self.name()).collect();
        let source = match self.rng.below(10) {
            0 => Source::None,
            1 | 2 if depth > 0 => { let mut q = self.select(depth - 1, false); q.selects.truncate(nc.max(1)); while q.selects.len() < nc { let e = self.ex(1); q.selects.push(SelItem { e, win: WinSel::None, alias: None }); } if nc == 0 { Source::None } else { Source::Select(Box::new(q)) } }
            _ if nc == 0 => Source::None, // `values()` ignores an empty row: nothing is stored
            _ => { let nr = 1 + self.rng.below(3) as usize; Source::Values((0..nr).map(|_| (0..nc).map(|_| self.ex(depth.min(2))).collect()).collect()) }
        };
        let on_conflict = if self.rng.chance(1, 3) {
            let ncol = self.rng.below(3) as usize; let nex = if self.rng.chance(1, 4) { 1 } else { 0 };
            let mut targets: Vec<Target> = (0..ncol).map(|_| Target::Col(self.name())).collect();
            for _ in 0..nex { targets.push(Target::Expr(self.ex(1))); }
            let action = match self.rng.below(6) { 0 if !self.plain => Action::None, 0 | 1 => { if self.b == B::Mysql { self.do_nothing_no_keys = true; } Action::Nothing(vec![]) } 2 => { let n = 1 + self.rng.below(2) as usize; Action::Nothing((0..n).map(|_| self.name()).collect()) }
                _ => { let n = 1 + self.rng.below(3) as usize; Action::Update((0..n).map(|_| if self.rng.chance(1, 2) { Upd::Col(self.name()) } else { Upd::Expr(self.name(), self.ex(depth.min(2))) }).collect()) } };
            Some(OnC { targets, target_where: if self.rng.chance(1, 4) { Holder::Cond(self.cond(1)) } else { Holder::Empty }, action, action_where: Holder::Empty }).map(|mut oc| { if (!self.plain || matches!(oc.action, Action::Update(_))) && self.rng.chance(1, 4) { oc.action_where = Holder::Cond(self.cond(1)); } oc })
        } else { None };
        Insert { with, replace: self.rng.chance(1, 8), table: if self.plain || self.rng.chance(19, 20) { Some(TRef::Named(self.tname())) } else { None }, columns, source, on_conflict, returning: self.returning(),
            default_values: if self.rng.chance(1, 5) { Some(1 + self.rng.below(3) as u32) } else { None } }
    }
    pub fn update(&mut self, depth: u32, top: bool) -> Update {
        let n = 1 + self.rng.below(3) as usize;
        let nf = if self.rng.chance(1, 4) { 1 + self.rng.below(2) as usize } else { 0 };
        if nf >= 2 && self.b == B::Mysql { self.multi_from_update = true; }
        Update { with: if self.plain { None } else { self.opt_with(depth, top) }, table: if self.plain || self.rng.chance(19, 20) { Some(TRef::Named(if self.rng.chance(2, 3) { TName { parts: vec![self.name()], alias: None } } else { self.tname() })) } else { None },
            sets: (0..n).map(|_| (self.name(), self.ex(depth.min(2)))).collect(), wher: self.holder(depth.min(2), true), orders: if self.plain && self.b == B::Postgres { vec![] } else { self.orders(depth, 2) },
            limit: if !(self.plain && self.b == B::Postgres) && self.rng.chance(1, 5) { Some(self.rng.below(20)) } else { None }, returning: self.returning(), from: (0..nf).map(|_| self.tref(depth.min(1))).collect() }
    }
    pub fn delete(&mut self, depth: u32, top: bool) -> Delete {
        Delete { with: if self.plain { None } else { self.opt_with(depth, top) }, table: if self.plain || self.rng.chance(19, 20) { Some(TRef::Named(self.tname())) } else { None }, wher: self.holder(depth.min(2), true), orders: if self.plain && self.b == B::Postgres { vec![] } else { self.orders(depth, 2) },
            limit: if !(self.plain && self.b == B::Postgres) && self.rng.chance(1, 5) { Some(self.rng.below(20)) } else { None }, returning: self.returning() }
    }
    pub fn query(&mut self, depth: u32, top: bool) -> Query {
        match self.rng.below(20) {
            0 | 1 | 2 => Query::Ins(self.insert(depth, top)), 3 | 4 => Query::Upd(self.update(depth, top)), 5 | 6 => Query::Del(self.delete(depth, top)),
            7 if depth > 0 && !self.plain => { let w = self.with_clause(depth - 1); Query::With(w, Box::new(self.query(depth - 1, false))) }
            _ => Query::Sel(self.select(depth, top)),
        }
    }
    /// a top-level statement, kinds evenly mixed
    pub fn statement(&mut self, depth: u32) -> Query {
        match self.rng.below(10) {
            0 | 1 | 2 | 3 => Query::Sel(self.select(depth, true)), 4 | 5 => Query::Ins(self.insert(depth, true)), 6 => Query::Upd(self.update(depth, true)), 7 => Query::Del(self.delete(depth, true)),
            _ if self.plain => { let w = self.with_clause(depth.saturating_sub(1)); Query::With(w, Box::new(Query::Sel(self.select(depth.saturating_sub(1), false)))) }
            _ => { let w = self.with_clause(depth.saturating_sub(1)); Query::With(w, Box::new(self.query(depth.saturating_sub(1), false))) }
        }
    }
}
