//! C01 / C02: whole statements.  Each generated statement recipe is built through the crate's
//! public API and rendered by every public entry point; the same recipe goes to the Lean
//! statement model (`stmt <backend> <recipe>`), whose parameterised text, value list and inline
//! text must equal the crate's.  Independent of the model, the property's own relations are
//! evaluated on the crate's output with the reference lexers (`reflex.rs`).
use crate::reflex::{self, B, Tok};
use crate::stmt::*;
use crate::*;

pub struct Rendered { pub sql: String, pub values: Vec<sea_query::Value>, pub inline: String }

/// render by the generic entry points; `None` = the crate panicked
pub fn render(real: &Real, b: B) -> Option<Rendered> {
    let r = catch(|| { let (sql, vals) = real.build(b); let inline = real.to_string(b); (sql, vals, inline) })?;
    Some(Rendered { sql: r.0, values: (r.1).0, inline: r.2 })
}

pub fn expect_line(r: &Option<Rendered>) -> String {
    match r {
        None => "panic".into(),
        Some(r) => format!("ok {} [{}] {}", hs(&r.sql), r.values.iter().map(value_tag).collect::<Vec<_>>().join(","), hs(&r.inline)),
    }
}

/// statement kinds / nesting for the evidence distribution
fn kind(q: &Query) -> &'static str { match q { Query::Sel(_) => "select", Query::Ins(_) => "insert", Query::Upd(_) => "update", Query::Del(_) => "delete", Query::With(_, _) => "with" } }

/// does the placeholder list read `$1..$n` ascending (Postgres) / all bare (MySQL, SQLite)?
pub fn numbering_ok(b: B, params: &[Option<u32>]) -> bool {
    if b == B::Postgres { params.iter().enumerate().all(|(i, p)| *p == Some(i as u32 + 1)) } else { params.iter().all(|p| p.is_none()) }
}

/// the text of `sql` with the i-th placeholder token (reading order, outside quoted text) replaced by `lits[i]`;
/// works on the character level so that everything else is preserved byte for byte
pub fn substitute(b: B, sql: &str, lits: &[String]) -> Result<String, String> {
    let spans = reflex::param_spans(b, sql)?;
    let mut out = String::new();
    let mut last = 0;
    for (i, (s, e, _)) in spans.iter().enumerate() {
        out.push_str(&sql[last..*s]);
        out.push_str(lits.get(i).ok_or("more placeholders than values")?);
        last = *e;
    }
    out.push_str(&sql[last..]);
    Ok(out)
}

pub static CONTENT_P: std::sync::atomic::AtomicUsize = std::sync::atomic::AtomicUsize::new(0);
pub static CONTENT_I: std::sync::atomic::AtomicUsize = std::sync::atomic::AtomicUsize::new(0);
pub static CONTENT_SEEN: std::sync::atomic::AtomicUsize = std::sync::atomic::AtomicUsize::new(0);

/// The model line ends with ` safe:PI content:PI` (P = parameterised writer, I = inline writer):
/// `content` is the hypothesis of the theorem `render_safe`, `safe` its conclusion evaluated on this case.
/// The flags are not part of the comparison (except `safe` where the caller keeps it); how often the
/// theorem's hypothesis holds is counted, and a case with the hypothesis but without the conclusion
/// would contradict the theorem and is made to disagree.
pub fn strip_flags(keep_safe: bool) -> Box<dyn Fn(&str) -> String + Send> {
    use std::sync::atomic::Ordering::Relaxed;
    Box::new(move |m: &str| {
        let mut line = m.to_string();
        let mut content = (false, false);
        if let Some(i) = line.rfind(" content:") {
            let f = line[i + 9..].as_bytes().to_vec();
            content = (f.first() == Some(&b'1'), f.get(1) == Some(&b'1'));
            line.truncate(i);
            CONTENT_SEEN.fetch_add(1, Relaxed);
            if content.0 { CONTENT_P.fetch_add(1, Relaxed); }
            if content.1 { CONTENT_I.fetch_add(1, Relaxed); }
        }
        if let Some(i) = line.rfind(" safe:") {
            let f = line[i + 6..].as_bytes().to_vec();
            let safe = (f.first() == Some(&b'1'), f.get(1) == Some(&b'1'));
            if (content.0 && !safe.0) || (content.1 && !safe.1) { return format!("{line} CONTRADICTS-render_safe"); }
            if !keep_safe { line.truncate(i); }
        }
        line
    })
}

pub fn report_ddl_flags(ctx: &mut Ctx) {
    use std::sync::atomic::Ordering::Relaxed;
    ctx.count_by("ddl_safe.cases_seen", CONTENT_SEEN.load(Relaxed));
    ctx.count_by("ddl_safe.hypothesis_holds", CONTENT_P.load(Relaxed));
}

pub fn report_flags(ctx: &mut Ctx) {
    use std::sync::atomic::Ordering::Relaxed;
    ctx.count_by("render_safe.cases_seen", CONTENT_SEEN.load(Relaxed));
    ctx.count_by("render_safe.hypothesis_holds.parameterised", CONTENT_P.load(Relaxed));
    ctx.count_by("render_safe.hypothesis_holds.inline", CONTENT_I.load(Relaxed));
}

pub fn run(ctx: &mut Ctx, prop: &str) {
    ctx.rule = "seeded generator over the statement AST (all five statement kinds, sub-queries in FROM / IN / EXISTS / CTEs / set operations, CASE, value lists, templates, LIMIT/OFFSET, window frames, upsert, RETURNING, every modelled value variant) x 3 backends; each recipe is built through the public API, rendered by build / to_string / build_any / build_collect* and compared with the Lean statement model; the property's relations are evaluated on the crate's output with independent reference lexers; convenience builder methods are compared with their general forms (same statement, same text, same values)".into();
    let n = if ctx.tier_thorough { 60000 } else { 6000 };
    let mut rng = ctx.rng.fork();
    for i in 0..n {
        let b = B::all()[i % 3];
        let tame = i % 2 == 0;
        let depth = match rng.below(10) { 0..=3 => 1, 4..=7 => 2, 8 => 3, _ => 4 };
        let mut g = Gen::new(rng.fork(), b, tame);
        let q = g.statement(depth);
        let recipe = q.sexp();
        let real = match catch(|| q.real()) { Some(r) => r, None => { ctx.count("build.panic"); continue; } };
        let r = render(&real, b);
        ctx.count(&format!("kind.{}", kind(&q)));
        ctx.count(if r.is_some() { "render.ok" } else { "render.panic" });
        // the model also reports whether its rendering satisfies `Safe`, the hypothesis of the C01 / C02 theorems:
        // required of every tame statement whose caller-supplied raw text is plain (no quoted parts, no bracketed template mark); not compared otherwise
        let must_be_safe = tame && r.is_some() && !g.bracket_mark && !g.raw_quoted;
        let exp = if must_be_safe { format!("{} safe:11", expect_line(&r)) } else { expect_line(&r) };
        let sq = recipe.clone();
        if must_be_safe { ctx.count("safe.required"); }
        ctx.case_norm(format!("stmt {} {}", b.name(), recipe), exp, true, &move || format!("{} {}", b.name(), sq), strip_flags(must_be_safe));
        let Some(r) = r else { continue };
        ctx.count(&format!("values.{}", match r.values.len() { 0 => "0", 1..=3 => "1-3", 4..=9 => "4-9", _ => "10+" }));

        // ---- the values returned are the values given, in rendering order, none lost, duplicated or moved (C01): compared with the
        // values an independent explicit rendering of the same recipe meets, in the dialect's grammar order (statements without templates)
        if prop == "C01" && !g.named_window && !(b == B::Mysql && g.multi_from_update) && !g.bracket_mark {
            let (_, want, opaque) = crate::explicit::render_bound_t(b, &q);
            if opaque { ctx.count("values.template-opaque"); }
            if !opaque {
            let got: Vec<String> = r.values.iter().map(crate::stmt::value_tag).collect();
            ctx.count("values.compared");
            if got != want {
                let k = (0..got.len().max(want.len())).find(|i| got.get(*i) != want.get(*i)).unwrap_or(0);
                ctx.oracle_fail("the values returned are not the values given, in rendering order", serde_json::json!({"backend": b.name(), "recipe": recipe, "sql": r.sql, "first_difference_at": k,
                    "returned": got.iter().skip(k.saturating_sub(1)).take(4).collect::<Vec<_>>(), "given": want.iter().skip(k.saturating_sub(1)).take(4).collect::<Vec<_>>()}));
            }
            }
        }

        // ---- entry points agree (C02) and rendering is repeatable and does not modify the statement
        let before = real.debug();
        let again = render(&real, b).expect("second render");
        if again.sql != r.sql || again.inline != r.inline || again.values != r.values {
            ctx.oracle_fail("rendering twice gives different results", serde_json::json!({"backend": b.name(), "recipe": recipe, "first": r.sql, "second": again.sql}));
        }
        if real.debug() != before { ctx.oracle_fail("rendering modified the statement", serde_json::json!({"backend": b.name(), "recipe": recipe})); }
        for (name, got) in [("build_any", catch(|| real.build_any(b))), ("build_collect", catch(|| real.build_collect(b))), ("build_collect_any", catch(|| real.build_collect_any(b)))] {
            match got {
                Some((t, v)) if t == r.sql && v.0 == r.values => {}
                other => ctx.oracle_fail("a rendering entry point disagrees with build()", serde_json::json!({"backend": b.name(), "entry": name, "recipe": recipe, "build": r.sql, "got": other.map(|x| x.0)})),
            }
        }
        for (name, any) in [("build_collect_into", false), ("build_collect_any_into", true)] {
            match catch(|| real.collect_into_values(b, any)) {
                Some((t, v)) if t == r.sql && v.0 == r.values => {}
                other => ctx.oracle_fail("a rendering entry point disagrees with build()", serde_json::json!({"backend": b.name(), "entry": name, "recipe": recipe, "build": r.sql, "got": other.map(|x| x.0)})),
            }
            match catch(|| real.collect_into_string(b, any, "/* p */ ")) {
                Some(t) if t.strip_prefix("/* p */ ") == Some(r.inline.as_str()) => {}
                other => ctx.oracle_fail("an inline rendering entry point disagrees with to_string()", serde_json::json!({"backend": b.name(), "entry": format!("{name}(String holding text)"), "recipe": recipe, "to_string": r.inline, "got": other})),
            }
        }
        for (name, any) in [("build_collect(String)", false), ("build_collect_any(String)", true)] {
            match catch(|| real.collect_string(b, any)) {
                Some(t) if t == r.inline => {}
                other => ctx.oracle_fail("an inline rendering entry point disagrees with to_string()", serde_json::json!({"backend": b.name(), "entry": name, "recipe": recipe, "to_string": r.inline, "got": other})),
            }
        }
        if !tame { continue; }
        ctx.eval_only(&format!("oracle {} {}", b.name(), recipe), true);
        // a mark inside [..] of a template is copied verbatim and its value dropped (open finding); SQLite reads [..] as a
        // quoted identifier, so there the statement is consistent
        let class = if g.bracket_mark && b != B::Sqlite { Some("C01.template_mark_inside_brackets") } else { None };

        // ---- C01: placeholders outside quoted text correspond one-to-one, in order, to the values
        if prop == "C01" { match reflex::lex(b, &r.sql) {
            Err(e) => ctx.oracle_fail("the parameterised SQL does not lex under the engine's lexical rules", serde_json::json!({"backend": b.name(), "recipe": recipe, "sql": r.sql, "error": e})),
            Ok(toks) => {
                let ps = reflex::params(&toks);
                if ps.len() != r.values.len() {
                    ctx.oracle_fail("number of placeholders outside quoted text differs from the number of values", serde_json::json!({"class": class, "backend": b.name(), "recipe": recipe, "sql": r.sql, "placeholders": ps.len(), "values": r.values.len()}));
                } else if !numbering_ok(b, &ps) {
                    ctx.oracle_fail("placeholders are not numbered $1..$n ascending / bare ?", serde_json::json!({"class": class, "backend": b.name(), "recipe": recipe, "sql": r.sql, "placeholders": format!("{ps:?}")}));
                }
                let _ = toks.iter().filter(|t| matches!(t, Tok::Str(_))).count();
            }
        } }
        // C02 presupposes C01: where a template mark inside [..] already breaks the placeholder / value correspondence
        // (open finding of C01) there is nothing to substitute
        if prop != "C02" || class.is_some() { continue; }
        // ---- C02: inline text = parameterised text with the i-th placeholder replaced by the i-th value's literal
        let lits: Vec<String> = r.values.iter().map(|v| crate::sq::value_to_string(b, v).unwrap_or_default()).collect();
        match substitute(b, &r.sql, &lits) {
            Ok(s) if s == r.inline => {}
            Ok(s) => ctx.oracle_fail("to_string() is not build() with each placeholder replaced by the value's literal", serde_json::json!({"class": class, "backend": b.name(), "recipe": recipe, "build": r.sql, "substituted": s, "to_string": r.inline})),
            Err(e) => ctx.oracle_fail("substitution failed", serde_json::json!({"class": class, "backend": b.name(), "recipe": recipe, "build": r.sql, "error": e})),
        }
        // ---- .. and that literal denotes the bound value under the engine's own lexical rules (text values; the reference lexers of C03)
        for (v, lit) in r.values.iter().zip(lits.iter()) {
            // numbers: the literal reads back as exactly the bound number (and a binary float stays a float literal);
            // date / time / uuid / network values: a quoted literal whose text is the harness's own component-wise rendering
            match v {
                sea_query::Value::Double(Some(x)) => { ctx.count("c02.numbers_read_back"); if lit.parse::<f64>().ok().map(|y| y.to_bits()) != Some(x.to_bits()) || !lit.contains(['.', 'e', 'E']) {
                    ctx.oracle_fail("the literal written for a bound number does not read back as that number", serde_json::json!({"backend": b.name(), "value": format!("{x:?}"), "literal": lit})); } continue; }
                sea_query::Value::Float(Some(x)) => { ctx.count("c02.numbers_read_back"); if lit.parse::<f32>().ok().map(|y| y.to_bits()) != Some(x.to_bits()) || !lit.contains(['.', 'e', 'E']) {
                    ctx.oracle_fail("the literal written for a bound number does not read back as that number", serde_json::json!({"backend": b.name(), "value": format!("{x:?}"), "literal": lit})); } continue; }
                sea_query::Value::Decimal(Some(x)) => { ctx.count("c02.numbers_read_back"); if lit.parse::<rust_decimal::Decimal>().ok().as_ref() != Some(&**x) {
                    ctx.oracle_fail("the literal written for a bound number does not read back as that number", serde_json::json!({"backend": b.name(), "value": x.to_string(), "literal": lit})); } continue; }
                sea_query::Value::BigDecimal(Some(x)) => { ctx.count("c02.numbers_read_back"); if lit.parse::<bigdecimal::BigDecimal>().ok().as_ref() != Some(&**x) {
                    ctx.oracle_fail("the literal written for a bound number does not read back as that number", serde_json::json!({"backend": b.name(), "value": x.to_string(), "literal": lit})); } continue; }
                _ => {}
            }
            if let Some(t) = crate::stmt::quoted_text(v) {
                ctx.count("c02.quoted_literals");
                if *lit != format!("'{t}'") { ctx.oracle_fail("the literal written for a bound date / time / uuid / network value is not the quoted canonical text of that value", serde_json::json!({"backend": b.name(), "expected": format!("'{t}'"), "literal": lit})); }
                continue;
            }
            let want = match v { sea_query::Value::String(Some(s)) => s.to_string(), sea_query::Value::Char(Some(c)) => c.to_string(),
                // a JSON value is written as the string literal of its serialised document
                sea_query::Value::Json(Some(j)) => j.to_string(), _ => continue };
            if want.contains('\0') { continue; }
            ctx.count("c02.literals_decoded");
            match reflex::lex(b, lit) {
                Ok(toks) if toks.len() == 1 && toks[0] == Tok::Str(want.clone()) => {}
                other => ctx.oracle_fail("the literal written for a bound text value does not denote that value under the engine's lexical rules", serde_json::json!({"backend": b.name(), "value": want, "literal": lit, "engine_reads": format!("{other:?}").chars().take(200).collect::<String>()})),
            }
        }
    }
    // the builder's convenience methods (and_where_option, the ON CONFLICT where-adders, setters called twice, ..) must build
    // what their general forms build: the generator above only calls the general forms
    crate::api::run(ctx);
}
