//! C05: expression rendering vs the engines' precedence.
//!  * `gen_policy`: observes the crate's parenthesis policy exhaustively through the public
//!    API (every outer operator x every child kind x side x backend) and emits
//!    `lean/SeaQ/Gen/Policy.lean`; the Lean obligation `TableOKD` is re-decided on it.
//!  * differential: random trees rendered by the crate vs printed by the model with that policy;
//!  * oracle: an independent reference parser (binding powers per dialect) re-parses the crate's
//!    SQL and must recover the tree that was built.
use crate::reflex::{self, B, Tok};
use crate::sq::*;
use crate::*;
use sea_query::extension::postgres::PgBinOper;
use sea_query::extension::sqlite::SqliteBinOper;
use sea_query::*;

pub const OP_IDS: [(u32, &str); 52] = [
    (0, "And"), (1, "Or"), (2, "Like"), (3, "NotLike"), (4, "Is"), (5, "IsNot"), (6, "In"), (7, "NotIn"),
    (8, "Between"), (9, "NotBetween"), (10, "Equal"), (11, "NotEqual"), (12, "SmallerThan"),
    (13, "GreaterThan"), (14, "SmallerThanOrEqual"), (15, "GreaterThanOrEqual"), (16, "Add"),
    (17, "Sub"), (18, "Mul"), (19, "Div"), (20, "Mod"), (21, "BitAnd"), (22, "BitOr"), (23, "LShift"),
    (24, "RShift"), (25, "As"), (26, "Escape"), (27, "Custom"),
    (30, "Pg.ILike"), (31, "Pg.NotILike"), (32, "Pg.Matches"), (33, "Pg.Contains"), (34, "Pg.Contained"),
    (35, "Pg.Concatenate"), (36, "Pg.Overlap"), (37, "Pg.Similarity"), (38, "Pg.WordSimilarity"),
    (39, "Pg.StrictWordSimilarity"), (40, "Pg.SimilarityDistance"), (41, "Pg.WordSimilarityDistance"),
    (42, "Pg.StrictWordSimilarityDistance"), (43, "Pg.GetJsonField"), (44, "Pg.CastJsonField"),
    (45, "Pg.Regex"), (46, "Pg.RegexCaseInsensitive"), (47, "Pg.EuclideanDistance"),
    (48, "Pg.NegativeInnerProduct"), (49, "Pg.CosineDistance"),
    (60, "Sqlite.Glob"), (61, "Sqlite.Match"), (62, "Sqlite.GetJsonField"), (63, "Sqlite.CastJsonField"),
];

pub fn binop(id: u32) -> BinOper {
    use BinOper::*;
    match id {
        0 => And, 1 => Or, 2 => Like, 3 => NotLike, 4 => Is, 5 => IsNot, 6 => In, 7 => NotIn, 8 => Between, 9 => NotBetween,
        10 => Equal, 11 => NotEqual, 12 => SmallerThan, 13 => GreaterThan, 14 => SmallerThanOrEqual, 15 => GreaterThanOrEqual,
        16 => Add, 17 => Sub, 18 => Mul, 19 => Div, 20 => Mod, 21 => BitAnd, 22 => BitOr, 23 => LShift, 24 => RShift,
        25 => As, 26 => Escape, 27 => Custom("!="),
        30 => PgOperator(PgBinOper::ILike), 31 => PgOperator(PgBinOper::NotILike), 32 => PgOperator(PgBinOper::Matches),
        33 => PgOperator(PgBinOper::Contains), 34 => PgOperator(PgBinOper::Contained), 35 => PgOperator(PgBinOper::Concatenate),
        36 => PgOperator(PgBinOper::Overlap), 37 => PgOperator(PgBinOper::Similarity), 38 => PgOperator(PgBinOper::WordSimilarity),
        39 => PgOperator(PgBinOper::StrictWordSimilarity), 40 => PgOperator(PgBinOper::SimilarityDistance),
        41 => PgOperator(PgBinOper::WordSimilarityDistance), 42 => PgOperator(PgBinOper::StrictWordSimilarityDistance),
        43 => PgOperator(PgBinOper::GetJsonField), 44 => PgOperator(PgBinOper::CastJsonField), 45 => PgOperator(PgBinOper::Regex),
        46 => PgOperator(PgBinOper::RegexCaseInsensitive), 47 => PgOperator(PgBinOper::EuclideanDistance),
        48 => PgOperator(PgBinOper::NegativeInnerProduct), 49 => PgOperator(PgBinOper::CosineDistance),
        60 => SqliteOperator(SqliteBinOper::Glob), 61 => SqliteOperator(SqliteBinOper::Match),
        62 => SqliteOperator(SqliteBinOper::GetJsonField), 63 => SqliteOperator(SqliteBinOper::CastJsonField),
        _ => panic!("bad op id"),
    }
}

pub fn ops_of(b: B) -> Vec<u32> {
    OP_IDS.iter().map(|x| x.0).filter(|id| match b { B::Mysql => *id < 30, B::Postgres => *id < 60, B::Sqlite => *id < 30 || *id >= 60 }).collect()
}

/// expression trees in the model's vocabulary
#[derive(Clone, Debug, PartialEq)]
pub enum Ex { Atom(u32), Un(Box<Ex>), Bin(Box<Ex>, u32, Box<Ex>), Node(u32, Vec<Ex>) }

pub fn sexp(e: &Ex) -> String {
    match e {
        Ex::Atom(a) => format!("a{a}"),
        Ex::Un(x) => format!("(not {})", sexp(x)),
        Ex::Bin(l, o, r) => format!("(bin {} {} {})", sexp(l), o, sexp(r)),
        Ex::Node(k, args) => format!("(node {}{})", k, args.iter().map(|a| format!(" {}", sexp(a))).collect::<String>()),
    }
}

/// atoms are numbered 8 * id + cls; cls: 0 column, 1 value, 2 constant, 3 keyword NULL, 4 custom, 5 custom-with-expr
pub fn build(e: &Ex) -> SimpleExpr {
    match e {
        Ex::Atom(a) => { let (id, cls) = (a / 8, a % 8); match cls {
            0 => Expr::col(Alias::new(format!("a{id}"))).into(),
            1 => Expr::val(1000 + id as i32).into(),
            2 => SimpleExpr::Constant(Value::Int(Some(2000 + id as i32))),
            3 => SimpleExpr::Keyword(Keyword::Null),
            4 => Expr::cust(format!("cu{id}")),
            _ => Expr::cust_with_values(format!("cw{id}"), Vec::<i32>::new()),
        } }
        Ex::Un(x) => SimpleExpr::Unary(UnOper::Not, Box::new(build(x))),
        Ex::Bin(l, o, r) => SimpleExpr::Binary(Box::new(build(l)), binop(*o), Box::new(build(r))),
        Ex::Node(k, args) => match k {
            0 => SimpleExpr::Tuple(args.iter().map(build).collect()),
            1 => SimpleExpr::FunctionCall(Func::coalesce(args.iter().map(build).collect::<Vec<_>>())),
            2 => { // CASE WHEN a0 THEN a1 [WHEN a2 THEN a3]… [ELSE last]
                let mut c = CaseStatement::new();
                let mut i = 0;
                while i + 1 < args.len() { c = c.case(build(&args[i]), build(&args[i + 1])); i += 2; }
                if i < args.len() { c = c.finally(build(&args[i])); }
                SimpleExpr::Case(Box::new(c))
            }
            3 => { let mut q = Query::select(); for a in args { q.expr(build(a)); } SimpleExpr::SubQuery(None, Box::new(q.into_sub_query_statement())) }
            5 => SimpleExpr::AsEnum(Alias::new("ty").into_iden(), Box::new(build(&args[0]))),
            _ => SimpleExpr::FunctionCall(Func::cast_as(build(&args[0]), Alias::new("tt"))),
        },
    }
}

fn render(b: B, e: &SimpleExpr) -> Option<String> {
    let q = Query::select().expr(e.clone()).to_owned();
    to_string_q(b, &q).map(|s| s.strip_prefix("SELECT ").unwrap_or(&s).to_string())
}

// ---------------------------------------------------------------- policy observation

/// child kinds the policy can see: (lean Kind syntax, sample expression)
fn kinds(b: B) -> Vec<(String, Ex)> {
    let mut v: Vec<(String, Ex)> = Vec::new();
    for cls in 0..6u32 { v.push((format!(".atom {cls}"), Ex::Atom(8 * 90 + cls))); }
    v.push((".un".into(), Ex::Un(Box::new(Ex::Atom(8 * 91)))));
    for k in 0..6u32 {
        let args = match k { 2 => vec![Ex::Atom(8 * 92), Ex::Atom(8 * 93 + 1)], 4 | 5 => vec![Ex::Atom(8 * 92)], _ => vec![Ex::Atom(8 * 92), Ex::Atom(8 * 93)] };
        v.push((format!(".node {k}"), Ex::Node(k, args)));
    }
    for i in ops_of(b) { v.push((format!(".bin {i}"), sample_bin(i))); }
    v
}

/// a well-formed binary with top operator `i`
fn sample_bin(i: u32) -> Ex {
    let x = Box::new(Ex::Atom(8 * 94));
    let y = Box::new(Ex::Atom(8 * 95));
    let z = Box::new(Ex::Atom(8 * 96));
    match i {
        8 | 9 => Ex::Bin(x, i, Box::new(Ex::Bin(y, 0, z))),
        6 | 7 => Ex::Bin(x, i, Box::new(Ex::Node(0, vec![*y, *z]))),
        25 => Ex::Bin(x, i, Box::new(Ex::Atom(8 * 95 + 4))),
        _ => Ex::Bin(x, i, y),
    }
}

fn well_formed_outer(o: u32, child_left: bool, inner: Ex) -> Ex {
    let c = Ex::Atom(8 * 97);
    let d = Ex::Atom(8 * 98);
    match (o, child_left) {
        (8, false) | (9, false) => Ex::Bin(Box::new(c), o, Box::new(inner)), // right child observed as-is (regular cell)
        (8, true) | (9, true) => Ex::Bin(Box::new(inner), o, Box::new(Ex::Bin(Box::new(c), 0, Box::new(d)))),
        (_, true) => Ex::Bin(Box::new(inner), o, Box::new(c)),
        (_, false) => Ex::Bin(Box::new(c), o, Box::new(inner)),
    }
}

pub fn gen_policy() -> Result<String, String> {
    let mut out = String::new();
    out.push_str("-- GENERATED by `seaq-harness gen-policy`: the crate's parenthesis policy, observed exhaustively through the\n-- public API of the current /repo (every outer operator x child kind x side x backend). Do not edit.\nimport SeaQ.Model.Pratt\nnamespace SeaQ.Gen.Policy\nopen SeaQ.Pratt\n\n");
    out.push_str("/-- a cell: binary children by (outer ↦ inner operators), other kinds by a flat list -/\ndef cellOf (bins : List (Nat × List Nat)) (other : List (Nat × Kind)) (o : Nat) (k : Kind) : Bool :=\n  match k with\n  | .bin i => match bins.find? (fun p => p.1 == o) with\n    | some p => p.2.contains i\n    | none => false\n  | _ => other.contains (o, k)\n\n");
    out.push_str(&format!("def opNames : List (Nat × String) := [{}]\n\n", OP_IDS.iter().map(|(i, n)| format!("({i}, \"{n}\")")).collect::<Vec<_>>().join(", ")));
    for b in B::all() {
        let ops = ops_of(b);
        let ks = kinds(b);
        let mut drop_l = Vec::new(); let mut drop_r = Vec::new(); let mut drop_n = Vec::new();
        let mut mix = Vec::new(); let mut drop_ml = Vec::new(); let mut drop_mr = Vec::new();
        for (kname, inner) in &ks {
            let si = render(b, &build(inner)).ok_or(format!("cannot render sample {kname}"))?;
            // prefix NOT
            let full = render(b, &build(&Ex::Un(Box::new(inner.clone())))).ok_or("cannot render NOT")?;
            if full == format!("NOT {si}") { drop_n.push(kname.clone()); } else if full != format!("NOT ({si})") { return Err(format!("unexpected NOT rendering {full:?} for {kname}")); }
            for &o in &ops {
                let is_and_inner = matches!(inner, Ex::Bin(_, 0, _));
                for left in [true, false] {
                    let outer = well_formed_outer(o, left, inner.clone());
                    let full = match render(b, &build(&outer)) { Some(s) => s, None => continue };
                    let (bare, paren) = if left { (full.starts_with(&format!("{si} ")), full.starts_with(&format!("({si}) "))) }
                                        else { (full.ends_with(&format!(" {si}")), full.ends_with(&format!(" ({si})"))) };
                    if paren { continue; }
                    if !bare { return Err(format!("cannot classify rendering {full:?} (inner {si:?}, outer {o}, left {left})")); }
                    if left { drop_l.push((o, kname.clone())); } else {
                        drop_r.push((o, kname.clone()));
                        let _ = is_and_inner;
                    }
                }
            }
        }
        // ternary encodings: the right child `bin _ s _` left bare for s in {And, Escape}
        for &o in &ops {
            for s in [0u32, 26] {
                if drop_r.iter().any(|(oo, k)| *oo == o && *k == format!(".bin {s}")) { mix.push((o, s)); }
            }
        }
        // operands of the ternary forms
        for (o, s) in &mix {
            for (kname, inner) in &ks {
                let si = render(b, &build(inner)).unwrap();
                let c = Ex::Atom(8 * 97); let d = Ex::Atom(8 * 98);
                let sd = render(b, &build(&d)).unwrap();
                let sc = render(b, &build(&c)).unwrap();
                let e1 = Ex::Bin(Box::new(c.clone()), *o, Box::new(Ex::Bin(Box::new(inner.clone()), *s, Box::new(d.clone()))));
                let e2 = Ex::Bin(Box::new(c.clone()), *o, Box::new(Ex::Bin(Box::new(d.clone()), *s, Box::new(inner.clone()))));
                let sep = render(b, &build(&Ex::Bin(Box::new(c.clone()), *s, Box::new(d.clone())))).unwrap();
                let sep = sep.strip_prefix(&format!("{sc} ")).and_then(|x| x.strip_suffix(&format!(" {sd}"))).ok_or("cannot extract separator spelling")?.to_string();
                if let Some(f1) = render(b, &build(&e1)) {
                    if f1.ends_with(&format!(" {si} {sep} {sd}")) { drop_ml.push((*o, kname.clone())); }
                    else if !f1.ends_with(&format!(" ({si}) {sep} {sd}")) { return Err(format!("cannot classify mixfix rendering {f1:?}")); }
                }
                if let Some(f2) = render(b, &build(&e2)) {
                    if f2.ends_with(&format!(" {sd} {sep} {si}")) { drop_mr.push((*o, kname.clone())); }
                    else if !f2.ends_with(&format!(" {sd} {sep} ({si})")) { return Err(format!("cannot classify mixfix rendering {f2:?}")); }
                }
            }
        }
        let n = b.name();
        // binary-kind cells as outer ↦ [inner operators]; everything else as a flat list
        let split = |v: &Vec<(u32, String)>| -> (String, String) {
            let mut bins: std::collections::BTreeMap<u32, Vec<String>> = std::collections::BTreeMap::new();
            let mut other = Vec::new();
            for (o, k) in v { if let Some(i) = k.strip_prefix(".bin ") { bins.entry(*o).or_default().push(i.to_string()); } else { other.push(format!("({o}, {k})")); } }
            (bins.iter().map(|(o, is)| format!("({o}, [{}])", is.join(", "))).collect::<Vec<_>>().join(", "), other.join(", "))
        };
        out.push_str(&format!("def {n}Ops : List Nat := [{}]\n", ops.iter().map(|x| x.to_string()).collect::<Vec<_>>().join(", ")));
        for (nm, v) in [("DropL", &drop_l), ("DropR", &drop_r), ("DropML", &drop_ml), ("DropMR", &drop_mr)] {
            let (bins, other) = split(v);
            out.push_str(&format!("def {n}{nm}Bin : List (Nat × List Nat) := [{bins}]\n"));
            out.push_str(&format!("def {n}{nm}Other : List (Nat × Kind) := [{other}]\n"));
        }
        out.push_str(&format!("def {n}DropN : List Kind := [{}]\n", drop_n.join(", ")));
        out.push_str(&format!("def {n}Mix : List (Nat × Nat) := [{}]\n\n", mix.iter().map(|(o, s)| format!("({o}, {s})")).collect::<Vec<_>>().join(", ")));
        out.push_str(&format!("def {n}Cells : Cells where\n  dropL := cellOf {n}DropLBin {n}DropLOther\n  dropR := cellOf {n}DropRBin {n}DropROther\n  dropN k := {n}DropN.contains k\n  mixOf o := ({n}Mix.find? (fun p => p.1 == o)).map (·.2)\n  dropML := cellOf {n}DropMLBin {n}DropMLOther\n  dropMR := cellOf {n}DropMRBin {n}DropMROther\n\n"));
    }
    out.push_str("end SeaQ.Gen.Policy\n");
    Ok(out)
}

// ---------------------------------------------------------------- reference parser (oracle)

#[derive(Clone, Copy)]
pub struct Bp { pub lbp: u32, pub rbp: u32, pub rbp2: u32, pub nonassoc: bool }

fn level(b: B, o: u32) -> u32 {
    let cmp = (10..=15).contains(&o); let is = o == 4 || o == 5; let inn = o == 6 || o == 7; let like = o == 2 || o == 3; let btw = o == 8 || o == 9;
    match b {
        B::Sqlite => if o == 1 { 1 } else if o == 0 { 2 } else if o == 10 || o == 11 || is || inn || like || btw || o == 60 || o == 61 { 4 }
            else if (12..=15).contains(&o) { 5 } else if [21, 22, 23, 24, 27].contains(&o) { 7 } else if o == 16 || o == 17 { 8 } else if [18, 19, 20].contains(&o) { 9 }
            else if o == 62 || o == 63 { 10 } else if o == 25 { 0 } else { 6 },
        B::Mysql => if o == 1 { 1 } else if o == 0 { 3 } else if cmp || is { 5 } else if inn || like || btw { 6 } else if o == 22 || o == 27 { 7 } else if o == 21 { 8 }
            else if o == 23 || o == 24 { 9 } else if o == 16 || o == 17 { 10 } else if [18, 19, 20].contains(&o) { 11 } else if o == 25 { 0 } else { 6 },
        B::Postgres => if o == 1 { 1 } else if o == 0 { 2 } else if is { 4 } else if cmp { 5 } else if inn || like || btw || o == 30 || o == 31 { 6 }
            else if o == 16 || o == 17 { 8 } else if [18, 19, 20, 37].contains(&o) { 9 } else if o == 25 { 0 } else { 7 },
    }
}
pub fn bp(b: B, o: u32) -> Bp {
    let l = level(b, o); let asx = if o == 25 { 1 } else { 0 };
    let btw = o == 8 || o == 9; let like = o == 2 || o == 3; let is = o == 4 || o == 5; let inn = o == 6 || o == 7; let cmp = (10..=15).contains(&o);
    match b {
        B::Sqlite => Bp { lbp: 2 * l + asx, rbp: if btw { 5 } else { 2 * l + 1 + asx }, rbp2: 2 * l + 1, nonassoc: false },
        B::Mysql => Bp { lbp: 2 * l + asx, rbp: if btw { 14 } else if like || is { 26 } else { 2 * l + 1 + asx }, rbp2: if btw { 12 } else { 26 }, nonassoc: inn || like || btw },
        B::Postgres => Bp { lbp: 2 * l + asx, rbp: if btw { 14 } else { 2 * l + 1 + asx }, rbp2: 13, nonassoc: is || cmp || inn || like || btw || o == 30 || o == 31 },
    }
}
pub fn nbp(b: B) -> u32 { if b == B::Mysql { 9 } else { 7 } }
pub fn mix_of(o: u32) -> Option<u32> { if o == 8 || o == 9 { Some(0) } else if o == 2 || o == 3 || o == 30 || o == 31 { Some(26) } else { None } }

/// operator spellings as token sequences, obtained from the crate itself (the spelling table is C08's business)
pub struct Spell { pub by_id: Vec<(u32, Vec<String>)> }
pub fn spellings(b: B) -> Spell {
    let mut v = Vec::new();
    for o in ops_of(b) {
        let e = sample_bin(o);
        let (l, r) = match &e { Ex::Bin(l, _, r) => (render(b, &build(l)).unwrap(), render(b, &build(r)).unwrap()), _ => unreachable!() };
        if let Some(s) = render(b, &build(&e)) {
            let s2 = if o == 8 || o == 9 { s.clone() } else { s };
            let mid = s2.strip_prefix(&format!("{l} ")).map(|x| x.to_string()).unwrap_or_default();
            let mid = if o == 8 || o == 9 { mid.split(' ').take(if o == 9 { 2 } else { 1 }).collect::<Vec<_>>().join(" ") } else { mid.strip_suffix(&format!(" {r}")).or(mid.strip_suffix(&format!(" ({r})"))).unwrap_or(&mid).to_string() };
            v.push((o, mid.split(' ').map(|x| x.to_string()).collect()));
        }
    }
    Spell { by_id: v }
}

fn tok_text(t: &Tok) -> Option<String> { match t { Tok::Word(w) => Some(w.to_uppercase()), Tok::Punct(p) => Some(p.clone()), _ => None } }

/// operator candidates (ids) whose spelling matches at position i; longest first
fn ops_at(sp: &Spell, t: &[Tok], i: usize) -> Vec<(Vec<u32>, usize)> {
    let mut best: Vec<(Vec<u32>, usize)> = Vec::new();
    for len in (1..=3).rev() {
        if i + len > t.len() { continue; }
        let words: Option<Vec<String>> = t[i..i + len].iter().map(tok_text).collect();
        if let Some(ws) = words {
            let ids: Vec<u32> = sp.by_id.iter().filter(|(_, s)| s.iter().map(|x| x.to_uppercase()).collect::<Vec<_>>() == ws).map(|(id, _)| *id).collect();
            if !ids.is_empty() { best.push((ids, len)); break; }
        }
    }
    best
}

/// parse tree with operator *spelling classes* (sets of ids sharing a spelling)
#[derive(Clone, Debug)]
pub enum PT { Atom(u32), Un(Box<PT>), Bin(Box<PT>, Vec<u32>, Box<PT>), Node(u32, Vec<PT>) }

/// AsEnum is rendered as its operand on MySQL / SQLite
pub fn strip_asenum(b: B, e: &Ex) -> Ex {
    match e {
        Ex::Atom(a) => Ex::Atom(*a),
        Ex::Un(x) => Ex::Un(Box::new(strip_asenum(b, x))),
        Ex::Bin(l, o, r) => Ex::Bin(Box::new(strip_asenum(b, l)), *o, Box::new(strip_asenum(b, r))),
        Ex::Node(5, a) if b != B::Postgres => strip_asenum(b, &a[0]),
        Ex::Node(k, a) => Ex::Node(*k, a.iter().map(|x| strip_asenum(b, x)).collect()),
    }
}

pub fn same(e: &Ex, p: &PT) -> bool {
    match (e, p) {
        (Ex::Atom(a), PT::Atom(b)) => a == b || (a % 8 == 3 && b % 8 == 3),
        (Ex::Un(x), PT::Un(y)) => same(x, y),
        (Ex::Bin(l, o, r), PT::Bin(pl, os, pr)) => os.contains(o) && same(l, pl) && same(r, pr),
        (Ex::Node(k, a), PT::Node(k2, b)) => k == k2 && a.len() == b.len() && a.iter().zip(b).all(|(x, y)| same(x, y)),
        _ => false,
    }
}

struct RP<'a> { b: B, sp: &'a Spell, t: &'a [Tok], i: usize, err: Option<String>, in_rhs: bool }
impl<'a> RP<'a> {
    fn fail<T>(&mut self, m: &str) -> Option<T> { if self.err.is_none() { self.err = Some(format!("{m} at token {}", self.i)); } None }
    fn punct(&self, p: &str) -> bool { matches!(self.t.get(self.i), Some(Tok::Punct(x)) if x == p) }
    fn word(&self, w: &str) -> bool { matches!(self.t.get(self.i), Some(Tok::Word(x)) if x.eq_ignore_ascii_case(w)) }
    fn primary(&mut self, m: u32) -> Option<PT> {
        let tk = self.t.get(self.i).cloned();
        match tk {
            Some(Tok::Ident(s)) => { self.i += 1; let id: u32 = s.strip_prefix('a').and_then(|x| x.parse().ok())?; Some(PT::Atom(8 * id)) }
            Some(Tok::Num(s)) => { self.i += 1; let n: u32 = s.parse().ok()?; if n >= 2000 { Some(PT::Atom(8 * (n - 2000) + 2)) } else { Some(PT::Atom(8 * (n - 1000) + 1)) } }
            Some(Tok::Word(w)) => {
                let up = w.to_uppercase();
                if up == "NULL" { self.i += 1; return Some(PT::Atom(3)); }
                if up == "NOT" { self.i += 1; let lvl = nbp(self.b); let e = self.expr(lvl)?; let _ = m; return Some(PT::Un(Box::new(e))); }
                if let Some(id) = w.strip_prefix("cu").and_then(|x| x.parse::<u32>().ok()) { self.i += 1; return Some(PT::Atom(8 * id + 4)); }
                if let Some(id) = w.strip_prefix("cw").and_then(|x| x.parse::<u32>().ok()) { self.i += 1; return Some(PT::Atom(8 * id + 5)); }
                if up == "TT" { self.i += 1; return Some(PT::Atom(7)); }
                if up == "COALESCE" || up == "CAST" {
                    self.i += 1;
                    if !self.punct("(") { return self.fail("expected ( after function name"); }
                    self.i += 1;
                    if up == "CAST" {
                        let x = self.expr(2)?; // everything above `AS`
                        if !self.word("AS") { return self.fail("expected AS in CAST"); }
                        self.i += 1;
                        let k = if matches!(self.t.get(self.i), Some(Tok::Ident(_))) { 5 } else { 4 };
                        self.i += 1; // type name
                        if !self.punct(")") { return self.fail("expected ) after CAST"); }
                        self.i += 1;
                        return Some(PT::Node(k, vec![x]));
                    }
                    let args = self.args()?;
                    return Some(PT::Node(1, args));
                }
                self.fail("unexpected word")
            }
            Some(Tok::Punct(p)) if p == "(" => {
                self.i += 1;
                let in_rhs = std::mem::take(&mut self.in_rhs);
                if self.word("CASE") {
                    self.i += 1; let mut args = Vec::new();
                    while self.word("WHEN") { self.i += 1; args.push(self.expr(0)?); if !self.word("THEN") { return self.fail("expected THEN"); } self.i += 1; args.push(self.expr(0)?); }
                    if self.word("ELSE") { self.i += 1; args.push(self.expr(0)?); }
                    if !self.word("END") { return self.fail("expected END"); }
                    self.i += 1;
                    if !self.punct(")") { return self.fail("expected ) after END"); }
                    self.i += 1;
                    return Some(PT::Node(2, args));
                }
                if self.word("SELECT") { self.i += 1; let args = self.args()?; return Some(PT::Node(3, args)); }
                // `( (SELECT ..) )`: the outer pair makes a one-element list of the sub-query (what IN compares with), not the sub-query itself
                let list_of_subquery = in_rhs && self.punct("(") && matches!(self.t.get(self.i + 1), Some(Tok::Word(w)) if w.eq_ignore_ascii_case("SELECT"));
                let e = self.expr(0)?;
                if list_of_subquery && self.punct(")") && matches!(e, PT::Node(3, _)) { self.i += 1; return Some(PT::Node(0, vec![e])); }
                if self.punct(",") { let mut v = vec![e]; while self.punct(",") { self.i += 1; v.push(self.expr(0)?); } if !self.punct(")") { return self.fail("expected ) after tuple"); } self.i += 1; return Some(PT::Node(0, v)); }
                if !self.punct(")") { return self.fail("expected )"); }
                self.i += 1;
                Some(e)
            }
            _ => self.fail("unexpected token"),
        }
    }
    fn args(&mut self) -> Option<Vec<PT>> {
        let mut v = Vec::new();
        if self.punct(")") { self.i += 1; return Some(v); }
        loop { v.push(self.expr(0)?); if self.punct(",") { self.i += 1; continue; } if self.punct(")") { self.i += 1; return Some(v); } return self.fail("expected , or )"); }
    }
    fn expr(&mut self, m: u32) -> Option<PT> {
        let mut lhs = self.primary(m)?;
        let mut top: Option<u32> = None;
        loop {
            let cands = ops_at(self.sp, self.t, self.i);
            let (ids, len) = match cands.into_iter().next() { Some(x) => x, None => return Some(lhs) };
            let o = ids[0];
            if o == 26 { return Some(lhs); } // ESCAPE is not a stand-alone operator
            let p = bp(self.b, o);
            if m > p.lbp { return Some(lhs); }
            if p.nonassoc && top == Some(p.lbp) { return self.fail("non-associative operators chained"); }
            self.i += len;
            // the right operand of IN / NOT IN is a list or a sub-query: `((SELECT ..))` is a list of one scalar sub-query
            self.in_rhs = (o == 6 || o == 7) && self.punct("(");
            let r1 = self.expr(p.rbp)?;
            self.in_rhs = false;
            let rhs = match mix_of(o) {
                None => r1,
                Some(s) => {
                    let seps = ops_at(self.sp, self.t, self.i);
                    let is_sep = seps.first().map(|(ids, _)| ids.contains(&s)).unwrap_or(false);
                    if is_sep { let l2 = seps[0].1; self.i += l2; let r2 = self.expr(p.rbp2)?; PT::Bin(Box::new(r1), vec![s], Box::new(r2)) }
                    else if s == 0 { return self.fail("BETWEEN without AND"); } else { r1 }
                }
            };
            lhs = PT::Bin(Box::new(lhs), ids, Box::new(rhs));
            top = Some(p.lbp);
        }
    }
}

pub fn ref_parse(b: B, sp: &Spell, sql: &str) -> Result<PT, String> {
    let t = reflex::lex(b, sql)?;
    let mut p = RP { b, sp, t: &t, i: 0, err: None, in_rhs: false };
    match p.expr(0) {
        Some(e) if p.i == t.len() => Ok(e),
        Some(_) => Err(format!("trailing tokens from {} in {:?}", p.i, sql)),
        None => Err(p.err.unwrap_or("parse error".into())),
    }
}

// ---------------------------------------------------------------- generators

fn gen_ex(r: &mut SplitMix64, b: B, depth: u32, next: &mut u32) -> Ex {
    let ops = ops_of(b);
    if depth == 0 || r.chance(1, 4) { *next += 1; let cls = *r.pick(&[0u32, 0, 0, 1, 1, 2, 3, 4, 5]); return Ex::Atom(8 * (*next % 100) + cls); }
    match r.below(10) {
        0 => Ex::Un(Box::new(gen_ex(r, b, depth - 1, next))),
        1 => { let k = *r.pick(&[0u32, 1, 1, 2, 3, 4, 5, 5]); let n = match k { 4 | 5 => 1, 2 => 2 + r.below(3) as usize, 0 => 2 + r.below(2) as usize, _ => 1 + r.below(3) as usize };
               Ex::Node(k, (0..n).map(|_| gen_ex(r, b, depth - 1, next)).collect()) }
        _ => {
            let mut o = *r.pick(&ops);
            while o == 26 || o == 25 { o = *r.pick(&ops); }
            let l = Box::new(gen_ex(r, b, depth - 1, next));
            match o {
                8 | 9 => Ex::Bin(l, o, Box::new(Ex::Bin(Box::new(gen_ex(r, b, depth - 1, next)), 0, Box::new(gen_ex(r, b, depth - 1, next))))),
                2 | 3 | 30 | 31 if r.chance(1, 2) => Ex::Bin(l, o, Box::new(Ex::Bin(Box::new(gen_ex(r, b, depth - 1, next)), 26, Box::new(gen_ex(r, b, 0, next))))),
                6 | 7 => { let n = 1 + r.below(3) as usize; let args: Vec<Ex> = (0..n).map(|_| gen_ex(r, b, depth - 1, next)).collect(); Ex::Bin(l, o, Box::new(if n == 1 { if r.chance(1, 4) { Ex::Node(0, vec![Ex::Node(3, args)]) } else { Ex::Node(3, args) } } else { Ex::Node(0, args) })) }
                4 | 5 if b == B::Mysql => { Ex::Bin(l, o, Box::new(Ex::Atom(3))) }
                _ => Ex::Bin(l, o, Box::new(gen_ex(r, b, depth - 1, next))),
            }
        }
    }
}

/// token string of the crate's SQL in the model's vocabulary (operators by spelling)
fn crate_tokens(b: B, sp: &Spell, sql: &str) -> Result<String, String> {
    let t = reflex::lex(b, sql)?;
    let mut out: Vec<String> = Vec::new();
    let mut i = 0;
    while i < t.len() {
        if let Some((ids, len)) = ops_at(sp, &t, i).into_iter().next() {
            // `NOT` alone is the prefix operator, never an infix spelling
            out.push(format!("O{}", sp.by_id.iter().find(|(id, _)| *id == ids[0]).unwrap().1.join("_")));
            i += len; continue;
        }
        match &t[i] {
            Tok::Ident(s) => out.push(format!("A{}", s.strip_prefix('a').and_then(|x| x.parse::<u32>().ok()).map(|n| 8 * n).ok_or("bad ident")?)),
            Tok::Num(s) => { let n: u32 = s.parse().map_err(|_| "bad num")?; out.push(format!("A{}", if n >= 2000 { 8 * (n - 2000) + 2 } else { 8 * (n - 1000) + 1 })); }
            Tok::Word(w) => {
                let up = w.to_uppercase();
                if up == "NOT" { out.push("NOT".into()); }
                else if up == "NULL" { out.push("A3".into()); }
                else if let Some(id) = w.strip_prefix("cu").and_then(|x| x.parse::<u32>().ok()) { out.push(format!("A{}", 8 * id + 4)); }
                else if let Some(id) = w.strip_prefix("cw").and_then(|x| x.parse::<u32>().ok()) { out.push(format!("A{}", 8 * id + 5)); }
                else { out.push(up); }
            }
            Tok::Punct(p) => out.push(p.clone()),
            other => return Err(format!("unexpected token {:?}", other)),
        }
        i += 1;
    }
    Ok(out.join(" "))
}

fn only_plain(e: &Ex) -> bool {
    match e { Ex::Atom(_) => true, Ex::Un(x) => only_plain(x), Ex::Bin(l, _, r) => only_plain(l) && only_plain(r), Ex::Node(k, a) => (*k == 0 || *k == 1) && a.iter().all(only_plain) }
}

/// classes of known, recorded findings (none at present: the MySQL LIKE-pattern finding was repaired, fix 03bd74c)
fn classify(_b: B, _e: &Ex) -> Option<&'static str> { None }

fn check_tree(ctx: &mut Ctx, b: B, sp: &Spell, e: &Ex) {
    let sql = render(b, &build(e));
    let line = format!("pexpr {} {}", b.name(), sexp(e));
    let (bn, sx) = (b.name(), sexp(e));
    ctx.count(&format!("trees.{bn}"));
    match &sql {
        None => { ctx.oracle_fail("rendering an expression panicked", serde_json::json!({"backend": bn, "tree": sx})); return; }
        Some(s) => {
            // differential on the token stream (plain constructs only: CASE / sub-select / CAST carry keywords the token model abstracts)
            if only_plain(e) {
                match crate_tokens(b, sp, s) {
                    Ok(toks) => { let ids: Vec<(u32, String)> = sp.by_id.iter().map(|(i, w)| (*i, w.join("_"))).collect();
                        ctx.case_norm(line, format!("toks {toks}"), true, &|| format!("{} on {}", sx, bn),
                            Box::new(move |m: &str| { let mut out = Vec::new(); for w in m.split(' ') { if let Some(id) = w.strip_prefix('O').and_then(|x| x.parse::<u32>().ok()) { out.push(format!("O{}", ids.iter().find(|(i, _)| *i == id).map(|x| x.1.clone()).unwrap_or_default())); } else { out.push(w.to_string()); } } out.join(" ") })); }
                    Err(err) => ctx.oracle_fail("cannot tokenise the rendered expression", serde_json::json!({"backend": bn, "tree": sx, "sql": s, "error": err})),
                }
            } else { ctx.eval_only(&line, true); }
            // oracle: re-parse with the engine's precedence
            let cls = classify(b, e);
            let mut fail = |ctx: &mut Ctx, what: &str, v: serde_json::Value| { let mut v = v; if let Some(c) = cls { v["class"] = serde_json::json!(c); ctx.count(&format!("oracle.known.{c}")); } else { ctx.count("oracle.unclassified"); } ctx.oracle_fail(what, v); };
            match ref_parse(b, sp, s) {
                Ok(pt) => if !same(&strip_asenum(b, e), &pt) { fail(ctx, "the rendered expression re-parses to a different tree under the engine's precedence", serde_json::json!({"backend": bn, "tree": sx, "sql": s, "parsed": format!("{:?}", pt)})); },
                Err(err) => fail(ctx, "the rendered expression does not parse under the engine's grammar", serde_json::json!({"backend": bn, "tree": sx, "sql": s, "error": err})),
            }
        }
    }
}

pub fn run(ctx: &mut Ctx) {
    let thorough = ctx.tier_thorough;
    let nrand = if thorough { 300000 } else { 40000 };
    ctx.rule = format!("policy table observed exhaustively (every outer operator x child kind x side x 3 backends; ternary operands separately); then ALL (outer, left-inner, right-inner) operator triples over atoms per backend, all (NOT, inner) pairs, and {} random trees (depth <= 5: atoms of 6 classes, NOT, every binary operator of the dialect incl. BETWEEN/LIKE..ESCAPE/IN encodings, tuples, function calls, CASE, sub-selects, CAST). Each tree: crate rendering vs model printing (token streams), and re-parse of the crate's SQL by an independent precedence parser vs the tree built. Non-trivial = every tree; distinct by (backend, tree).", nrand);
    for b in B::all() {
        let sp = spellings(b);
        let ops: Vec<u32> = ops_of(b).into_iter().filter(|o| *o != 26 && *o != 25).collect();
        let mk = |o: u32, l: Ex, r: Ex| -> Ex { match o { 8 | 9 => Ex::Bin(Box::new(l), o, Box::new(Ex::Bin(Box::new(r), 0, Box::new(Ex::Atom(8 * 77))))), 6 | 7 => Ex::Bin(Box::new(l), o, Box::new(Ex::Node(0, vec![r, Ex::Atom(8 * 78)]))), _ => Ex::Bin(Box::new(l), o, Box::new(r)) } };
        for &o in &ops { for &i in &ops { for &j in &ops {
            // keep the exhaustive part affordable: all pairs on each side, triples on a diagonal slice
            if (i + 3 * j + o) % 5 != 0 && i != j { continue; }
            let li = mk(i, Ex::Atom(8 * 1), Ex::Atom(8 * 2));
            let rj = mk(j, Ex::Atom(8 * 3), Ex::Atom(8 * 4));
            check_tree(ctx, b, &sp, &mk(o, li, rj));
        } } }
        for &o in &ops { for &i in &ops {
            check_tree(ctx, b, &sp, &mk(o, mk(i, Ex::Atom(8), Ex::Atom(16)), Ex::Atom(24)));
            check_tree(ctx, b, &sp, &mk(o, Ex::Atom(24), mk(i, Ex::Atom(8), Ex::Atom(16))));
        } }
        for &i in &ops { check_tree(ctx, b, &sp, &Ex::Un(Box::new(mk(i, Ex::Atom(8), Ex::Atom(16))))); }
    }
    ctx.exhaustive = true;
    let sps: Vec<Spell> = B::all().iter().map(|b| spellings(*b)).collect();
    for _ in 0..nrand {
        let mut r = ctx.rng.fork();
        let bi = r.below(3) as usize;
        let b = B::all()[bi];
        let mut next = 0;
        let d = 1 + r.below(5) as u32;
        let e = gen_ex(&mut r, b, d, &mut next);
        check_tree(ctx, b, &sps[bi], &e);
    }
    // "built through the expression API": every helper of the API against the general form it abbreviates (same tree)
    crate::api::run(ctx);
}
