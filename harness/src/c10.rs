//! C10: INSERT rows vs column list — exhaustive call histories, differential + oracle.
use crate::reflex::{self, B, Tok};
use crate::sq::*;
use crate::*;
use sea_query::*;

#[derive(Clone, Debug, PartialEq)]
pub enum Op { Columns(usize), Values(usize), ValuesPanic(usize), SelectFrom(usize), Defaults(usize), ValuesFrom(Vec<usize>) }

fn opname(o: &Op) -> String {
    match o { Op::Columns(n) => format!("(columns {n})"), Op::Values(n) => format!("(values {n})"), Op::ValuesPanic(n) => format!("(values_panic {n})"), Op::SelectFrom(n) => format!("(select_from {n})"), Op::Defaults(n) => format!("(defaults {n})"), Op::ValuesFrom(v) => format!("(values_from{})", v.iter().map(|n| format!(" {n}")).collect::<String>()) }
}
fn fmt_list(v: &[u64]) -> String { format!("[{}]", v.iter().map(|x| x.to_string()).collect::<Vec<_>>().join(",")) }

/// parse the rendered INSERT back into the canonical shape string
fn shape_of(b: B, sql: &str) -> Result<String, String> {
    let t = reflex::lex(b, sql).map_err(|e| format!("lex: {e}"))?;
    let mut i = 0;
    let word = |i: usize, w: &str| matches!(t.get(i), Some(Tok::Word(x)) if x.eq_ignore_ascii_case(w));
    let punct = |i: usize, p: &str| matches!(t.get(i), Some(Tok::Punct(x)) if x == p);
    if !word(0, "INSERT") || !word(1, "INTO") { return Err("no INSERT INTO".into()); }
    i = 3;
    let col_of = |s: &str| s.strip_prefix('c').and_then(|x| x.parse::<u64>().ok());
    // DEFAULT VALUES forms
    if word(i, "DEFAULT") && word(i + 1, "VALUES") && i + 2 == t.len() { return Ok("default *".into()); }
    // zero default rows were requested: nothing follows VALUES
    if word(i, "VALUES") && i + 1 == t.len() { return Ok("default 0".into()); }
    if word(i, "VALUES") {
        // VALUES (DEFAULT), … | VALUES (), …
        let mut n = 0; let mut j = i + 1;
        loop {
            if !punct(j, "(") { return Err("bad default list".into()); }
            j += 1;
            if word(j, "DEFAULT") { j += 1; }
            if !punct(j, ")") { return Err("bad default list".into()); }
            j += 1; n += 1;
            if punct(j, ",") { j += 1; continue; }
            break;
        }
        if j != t.len() { return Err("trailing tokens after default list".into()); }
        return Ok(format!("default {n}"));
    }
    if !punct(i, "(") { return Err("no column list".into()); }
    i += 1;
    let mut cols = Vec::new();
    while let Some(Tok::Ident(s)) = t.get(i) { cols.push(col_of(s).ok_or("bad column")?); i += 1; if punct(i, ",") { i += 1; } }
    if !punct(i, ")") { return Err("unterminated column list".into()); }
    i += 1;
    if i == t.len() { return Ok(format!("nosource {}", fmt_list(&cols))); }
    if word(i, "SELECT") {
        i += 1; let mut sel = Vec::new();
        while let Some(Tok::Num(s)) = t.get(i) { sel.push(s.parse::<u64>().map_err(|_| "num")?); i += 1; if punct(i, ",") { i += 1; } }
        if i != t.len() { return Err("trailing tokens after select list".into()); }
        return Ok(format!("select {} {}", fmt_list(&cols), fmt_list(&sel)));
    }
    if word(i, "VALUES") {
        i += 1; let mut rows = Vec::new();
        loop {
            if b == B::Mysql && word(i, "ROW") { i += 1; }
            if !punct(i, "(") { return Err("bad row".into()); }
            i += 1; let mut row = Vec::new();
            while let Some(Tok::Num(s)) = t.get(i) { row.push(s.parse::<u64>().map_err(|_| "num")?); i += 1; if punct(i, ",") { i += 1; } }
            if !punct(i, ")") { return Err("unterminated row".into()); }
            i += 1; rows.push(fmt_list(&row));
            if punct(i, ",") { i += 1; continue; }
            break;
        }
        if i != t.len() { return Err("trailing tokens after VALUES".into()); }
        return Ok(format!("values {} [{}]", fmt_list(&cols), rows.join(",")));
    }
    Err("unrecognised INSERT form".into())
}

fn check(ctx: &mut Ctx, ops: &[Op]) {
    let line = format!("ins (ins {})", ops.iter().map(opname).collect::<Vec<_>>().join(" "));
    let mut st = Query::insert();
    st.into_table(Alias::new("t"));
    let mut ctr: u64 = 100;
    let mut outs: Vec<String> = Vec::new();
    let mut dead = false;
    // the specification, tracked independently: expected rows / columns
    let mut exp_cols: usize = 0;
    let mut exp_rows: Vec<Vec<u64>> = Vec::new();
    let mut exp_select: Option<Vec<u64>> = None;
    let mut exp_defaults: Option<usize> = None;
    let mut recount = false;
    for op in ops {
        if dead { break; }
        match op.clone() {
            Op::ValuesFrom(lens) => {
                let mut rows: Vec<Vec<SimpleExpr>> = Vec::new();
                let mut all_cells: Vec<Vec<u64>> = Vec::new();
                for n in &lens { let cells: Vec<u64> = (0..*n as u64).map(|i| ctr + i).collect(); ctr += *n as u64; rows.push(cells.iter().map(|c| Expr::val(*c).into()).collect()); all_cells.push(cells); }
                let r = catch(|| { st.values_from_panic(rows); });
                let should_panic = lens.iter().any(|n| *n != exp_cols);
                match r {
                    None => { outs.push("panic".into()); dead = true; if !should_panic { ctx.oracle_fail("values_from_panic panicked although every row has the right length", serde_json::json!({"history": line})); } }
                    Some(()) => {
                        outs.push("ok".into());
                        if should_panic { ctx.oracle_fail("values_from_panic accepted a batch containing a row of the wrong length", serde_json::json!({"history": line, "columns": exp_cols, "row_lengths": lens})); }
                        for cells in all_cells { if !cells.is_empty() { if exp_select.take().is_some() { exp_rows.clear(); } exp_rows.push(cells); } }
                    }
                }
            }
            Op::Columns(n) => {
                if n != exp_cols && !exp_rows.is_empty() { recount = true; }
                st.columns((0..n).map(|i| Alias::new(format!("c{i}")))); outs.push("ok".into()); exp_cols = n;
            }
            Op::Values(n) | Op::ValuesPanic(n) => {
                let cells: Vec<u64> = (0..n as u64).map(|i| ctr + i).collect();
                ctr += n as u64;
                let before = st.clone();
                let exprs: Vec<SimpleExpr> = cells.iter().map(|c| Expr::val(*c).into()).collect();
                let is_panic = matches!(op, &Op::ValuesPanic(_));
                let r = catch(|| {
                    if is_panic { st.values_panic(exprs); Ok(()) } else { st.values(exprs).map(|_| ()) }
                });
                match r {
                    None => { outs.push("panic".into()); dead = true; if n == exp_cols { ctx.oracle_fail("values_panic panicked on a row of the right length", serde_json::json!({"history": line})); } }
                    Some(Ok(())) => {
                        outs.push("ok".into());
                        if n != exp_cols { ctx.oracle_fail("a row of the wrong length was accepted", serde_json::json!({"history": line, "columns": exp_cols, "row_len": n})); }
                        if n > 0 { if exp_select.take().is_some() { exp_rows.clear(); } exp_rows.push(cells); }
                    }
                    Some(Err(sea_query::error::Error::ColValNumMismatch { col_len, val_len })) => {
                        outs.push(format!("err:{col_len}:{val_len}"));
                        if n == exp_cols { ctx.oracle_fail("a row of the right length was rejected", serde_json::json!({"history": line})); }
                        if col_len != exp_cols || val_len != n { ctx.oracle_fail("the mismatch error carries wrong counts", serde_json::json!({"history": line, "col_len": col_len, "val_len": val_len, "columns": exp_cols, "row_len": n})); }
                        // .. and says so: the message names the column count first and the value count second
                        let msg = sea_query::error::Error::ColValNumMismatch { col_len, val_len }.to_string();
                        let nums: Vec<usize> = msg.split(|c: char| !c.is_ascii_digit()).filter(|t| !t.is_empty()).filter_map(|t| t.parse().ok()).collect();
                        if nums != [exp_cols, n] { ctx.oracle_fail("the mismatch error's message does not report the two counts", serde_json::json!({"history": line, "message": msg, "columns": exp_cols, "row_len": n})); }
                        if st != before { ctx.oracle_fail("a rejected row changed the statement", serde_json::json!({"history": line})); }
                    }
                }
            }
            Op::SelectFrom(n) => {
                let cells: Vec<u64> = (0..n as u64).map(|i| ctr + i).collect();
                ctr += n as u64;
                let mut sel = Query::select();
                for c in &cells { sel.expr(Expr::val(*c)); }
                let before = st.clone();
                match st.select_from(sel) {
                    Ok(_) => { outs.push("ok".into()); if n != exp_cols { ctx.oracle_fail("select_from accepted a select list of the wrong length", serde_json::json!({"history": line})); } exp_select = Some(cells); exp_rows.clear(); }
                    Err(sea_query::error::Error::ColValNumMismatch { col_len, val_len }) => {
                        outs.push(format!("err:{col_len}:{val_len}"));
                        if n == exp_cols || col_len != exp_cols || val_len != n { ctx.oracle_fail("select_from mismatch error is wrong", serde_json::json!({"history": line, "col_len": col_len, "val_len": val_len})); }
                        if st != before { ctx.oracle_fail("a rejected select_from changed the statement", serde_json::json!({"history": line})); }
                    }
                }
            }
            Op::Defaults(n) => { if n == 1 { st.or_default_values(); } else { st.or_default_values_many(n as u32); } outs.push("ok".into()); exp_defaults = Some(n); }
        }
    }
    for b in B::all() {
        let shape = if dead { "dead".to_string() } else {
            match to_string_q(b, &st) { None => "render-panic".into(), Some(sql) => match shape_of(b, &sql) { Ok(s) => s, Err(e) => format!("unparsed({e}): {sql}") } }
        };
        let mut expect = format!("outs {} | {}", outs.join(","), shape);
        // SQLite's DEFAULT VALUES carries no row count
        let mut l2 = line.clone();
        if shape == "default *" { expect = format!("outs {} | default *", outs.join(",")); l2 = format!("{line} "); }
        let (lc, bn) = (line.clone(), b.name());
        if shape == "default *" {
            // compare only the outcomes and the branch taken
            ctx.eval_only(&format!("{l2}{bn}"), !ops.is_empty());
        } else {
            ctx.case(line.clone(), expect, ops.len() >= 2, &|| format!("{} on {}", lc, bn));
        }
        // oracle: the default-row form carries as many rows as the LAST default request asked for
        if !dead { if let (Some(n), Some(k)) = (exp_defaults, shape.strip_prefix("default ").and_then(|x| x.parse::<usize>().ok())) {
            if n != k { ctx.oracle_fail("the default-row form does not carry the number of rows that was requested last", serde_json::json!({"history": line, "backend": bn, "rendered": shape, "requested": n})); }
        } }
        // oracle: rectangular VALUES list, rows and cells in call order
        if !dead && shape.starts_with("values ") {
            let want = format!("values {} [{}]", fmt_list(&(0..exp_cols as u64).collect::<Vec<_>>()), exp_rows.iter().map(|r| fmt_list(r)).collect::<Vec<_>>().join(","));
            if shape != want {
                ctx.oracle_fail("rendered VALUES list differs from the accepted rows in call order", serde_json::json!({"history": line, "backend": bn, "rendered": shape, "expected": want}));
            }
            if exp_rows.iter().any(|r| r.len() != exp_cols) {
                let mut v = serde_json::json!({"history": line, "backend": bn, "rendered": shape});
                if recount { v["class"] = serde_json::json!("C10.columns_redeclared_after_rows"); ctx.count("oracle.known.C10.columns_redeclared_after_rows"); } else { ctx.count("oracle.unclassified"); }
                ctx.oracle_fail("rendered INSERT is not rectangular: a row does not match the column list", v);
            }
        }
        // oracle: a declared column list is rendered; default rows are written only when no column was declared
        if !dead && exp_cols > 0 && shape.starts_with("default") {
            ctx.oracle_fail("the declared column list is not rendered: the statement inserts default rows instead", serde_json::json!({"history": line, "backend": bn, "rendered": shape, "columns": exp_cols}));
        }
        if !dead && shape.starts_with("unparsed") { ctx.oracle_fail("rendered INSERT has an unexpected form", serde_json::json!({"history": line, "backend": bn, "rendered": shape})); }
    }
    ctx.count(&format!("len.{}", ops.len()));
}

pub fn run(ctx: &mut Ctx) {
    let thorough = ctx.tier_thorough;
    let mut calls: Vec<Op> = Vec::new();
    for n in 0..=3 { calls.push(Op::Columns(n)); calls.push(Op::Values(n)); }
    for n in [0usize, 1, 2] { calls.push(Op::ValuesPanic(n)); calls.push(Op::SelectFrom(n)); }
    calls.push(Op::Defaults(1)); calls.push(Op::Defaults(3)); calls.push(Op::Defaults(0));
    calls.push(Op::ValuesFrom(vec![1, 1])); calls.push(Op::ValuesFrom(vec![2, 1])); calls.push(Op::ValuesFrom(vec![2, 2, 0])); calls.push(Op::ValuesFrom(vec![0, 1]));
    let maxlen = if thorough { 5 } else { 4 };
    ctx.rule = format!("ALL call histories of length 0..={} over the {} calls {{columns(0..3), values(0..3), values_panic(0..2), select_from(0..2), or_default_values, or_default_values_many(3), or_default_values_many(0), values_from_panic with 4 batch shapes}} (exhaustive), plus {} random histories up to length 9 with counts up to 6; each rendered on 3 backends. Compared with the model: per-call outcome (ok / err with both counts / panic) and the INSERT shape parsed back from the SQL. Oracle: acceptance iff lengths match, error payload, statement unchanged (==) after a rejected call, rendered rows = accepted rows in call order, rectangularity. Non-trivial = at least 2 calls; distinct by history.", maxlen, calls.len(), if thorough { 100000 } else { 20000 });
    for len in 0..=maxlen {
        let mut idx = vec![0usize; len];
        loop {
            let ops: Vec<Op> = idx.iter().map(|&i| calls[i].clone()).collect();
            check(ctx, &ops);
            let mut k = len; let mut done = false;
            loop { if k == 0 { done = true; break; } k -= 1; idx[k] += 1; if idx[k] < calls.len() { break; } idx[k] = 0; }
            if done { break; }
        }
    }
    ctx.exhaustive = true;
    let n = if thorough { 100000 } else { 20000 };
    for _ in 0..n {
        let mut r = ctx.rng.fork();
        let len = r.below(10) as usize;
        let ops: Vec<Op> = (0..len).map(|_| { let k = r.below(7) as usize; match r.below(10) { 0..=2 => Op::Columns(k), 3..=6 => Op::Values(k), 7 => Op::ValuesPanic(k), 8 => Op::SelectFrom(k), _ => if r.chance(1, 2) { Op::Defaults(1 + k) } else { Op::ValuesFrom((0..r.below(4)).map(|_| if r.chance(2, 3) { k } else { r.below(5) as usize }).collect()) } } }).collect();
        check(ctx, &ops);
    }
    // ---- select lists of every shape (values, columns, `*`, `t.*`, sub-selects, function calls): the count that must match the column
    // list is the number of select items, whatever they are; a rejected select leaves the statement (and rows accepted before) untouched
    let m = if thorough { 20000 } else { 2000 };
    for _ in 0..m {
        let mut r = ctx.rng.fork();
        let ncols = r.below(5) as usize;
        let nitems = r.below(5) as usize;
        let mut st = Query::insert();
        st.into_table(Alias::new("t"));
        st.columns((0..ncols).map(|i| Alias::new(format!("c{i}"))));
        let had_row = r.chance(1, 2);
        if had_row { let _ = st.values((0..ncols).map(|i| Expr::val(i as i32).into())); }
        let mut sel = Query::select();
        let mut shape = Vec::new();
        for k in 0..nitems {
            match r.below(6) {
                0 => { sel.column(Asterisk); shape.push("*"); }
                1 => { sel.column((Alias::new("u"), Asterisk)); shape.push("u.*"); }
                2 => { sel.expr(Expr::col(Asterisk)); shape.push("expr(*)"); }
                3 => { sel.column(Alias::new(format!("x{k}"))); shape.push("col"); }
                4 => { sel.expr(Func::max(Expr::col(Alias::new("y")))); shape.push("fn"); }
                _ => { sel.expr(Expr::val(k as i32)); shape.push("val"); }
            }
        }
        sel.from(Alias::new("u"));
        let before = st.clone();
        let line = format!("select_from columns={ncols} items=[{}] row_before={had_row}", shape.join(", "));
        ctx.eval_only(&line, true);
        ctx.count("select_from.shapes");
        match st.select_from(sel) {
            Ok(_) => { if nitems != ncols { ctx.oracle_fail("select_from accepted a select list of the wrong length", serde_json::json!({"history": line})); } }
            Err(sea_query::error::Error::ColValNumMismatch { col_len, val_len }) => {
                if nitems == ncols || col_len != ncols || val_len != nitems { ctx.oracle_fail("select_from mismatch error is wrong", serde_json::json!({"history": line, "col_len": col_len, "val_len": val_len})); }
                if st != before { ctx.oracle_fail("a rejected select_from changed the statement", serde_json::json!({"history": line})); }
            }
        }
    }
}