//! seaq-translate: regenerates `lean/SeaQ/Gen/*.lean` from the current sea-query sources.
//!
//! usage: seaq-translate <repo> <outdir> <group>...
//! Prints `OK <group>` / `FAIL <group>: <reason>` per group; exit 1 if any failed.
//! Only the small Rust subset each extractor understands is accepted; anything else is a
//! loud failure (a broken obligation for the properties that import the group).

mod common;
mod g_clauses;
mod g_coltypes;
mod g_derive;
mod g_escape;
mod g_hashable;
mod g_quote;
mod g_spell;
mod g_take;
mod g_token;
mod g_types;

use std::path::Path;

fn main() {
    let args: Vec<String> = std::env::args().collect();
    if args.len() < 4 {
        eprintln!("usage: seaq-translate <repo> <outdir> <group>...");
        std::process::exit(2);
    }
    let repo = Path::new(&args[1]);
    let out = Path::new(&args[2]);
    let mut failed = false;
    for g in &args[3..] {
        let r: Result<Vec<(String, String)>, String> = match g.as_str() {
            "token" => g_token::generate(repo),
            "escape" => g_escape::generate(repo),
            "quote" => g_quote::generate(repo),
            "hashable" => g_hashable::generate(repo),
            "take" => g_take::generate(repo),
            "types" => g_types::generate(repo),
            "coltypes" => g_coltypes::generate(repo),
            "derive" => g_derive::generate(repo),
            "spell" => g_spell::generate(repo),
            "clauses" => g_clauses::generate(repo),
            _ => Err(format!("unknown group {g}")),
        };
        match r {
            Ok(files) => {
                for (name, content) in files {
                    let p = out.join(&name);
                    let old = std::fs::read_to_string(&p).unwrap_or_default();
                    if old != content {
                        std::fs::write(&p, content).expect("cannot write generated file");
                    }
                }
                println!("OK {g}");
            }
            Err(e) => {
                failed = true;
                println!("FAIL {g}: {}", e.replace('\n', " "));
            }
        }
    }
    std::process::exit(if failed { 1 } else { 0 });
}
