//! G8 (derive): `fn must_be_valid_iden(name: &str) -> bool` of sea-query-derive, translated into a Lean
//! predicate over `List Char`.  The Rust subset: `&&`, `||`, `!`, `name.chars()` followed by `take(k)` / `skip(k)` /
//! `rev()` and closed by `all(|c| P)` / `any(|c| P)`, `name.is_empty()`, `name.contains('x')`, `name.starts_with('x')`;
//! character predicates `c == 'x'`, `c != 'x'`, `c.is_ascii_*()`, `matches!(c, 'a'..='z' | '_')`,
//! `('a'..='z').contains(&c)`.  Unicode classes (`is_alphabetic`, ..) are refused: the model is ASCII.
use crate::common::*;
use std::path::Path;
use syn::{BinOp, Expr, Pat, UnOp};

fn strip(e: &Expr) -> &Expr {
    match e {
        Expr::Paren(p) => strip(&p.expr),
        Expr::Group(g) => strip(&g.expr),
        Expr::Reference(r) => strip(&r.expr),
        Expr::Unary(u) if matches!(u.op, UnOp::Deref(_)) => strip(&u.expr),
        _ => e,
    }
}

fn closure_of(e: &Expr) -> R<(String, &Expr)> {
    match strip(e) {
        Expr::Closure(c) if c.inputs.len() == 1 => {
            let mut p = &c.inputs[0];
            loop { match p { Pat::Reference(r) => p = &r.pat, Pat::Paren(pp) => p = &pp.pat, Pat::Type(t) => p = &t.pat, _ => break } }
            match p { Pat::Ident(i) => Ok((i.ident.to_string(), &c.body)), _ => Err(format!("closure parameter `{}` is not a plain name", norm_tokens(&c.inputs[0]))) }
        }
        other => Err(format!("expected a one-parameter closure, found `{}`", norm_tokens(other))),
    }
}

fn usize_lit(e: &Expr) -> R<u64> {
    match strip(e) {
        Expr::Lit(syn::ExprLit { lit: syn::Lit::Int(i), .. }) => i.base10_parse::<u64>().map_err(|e| e.to_string()),
        other => Err(format!("expected an integer literal, found `{}`", norm_tokens(other))),
    }
}

/// a pattern of char literals and inclusive ranges, as a Lean Bool expression about `c`
fn pat_pred(p: &Pat, c: &str) -> R<String> {
    match p {
        Pat::Lit(l) => match &l.lit { syn::Lit::Char(ch) => Ok(format!("({c} == {})", lean_char(ch.value()))), _ => Err("non-char literal pattern".into()) },
        Pat::Range(r) => {
            if !matches!(r.limits, syn::RangeLimits::Closed(_)) { return Err("half-open range pattern".into()); }
            let lo = char_lit(r.start.as_ref().ok_or("open range")?)?;
            let hi = char_lit(r.end.as_ref().ok_or("open range")?)?;
            Ok(format!("(decide ({} ≤ {c}.toNat) && decide ({c}.toNat ≤ {}))", lo as u32, hi as u32))
        }
        Pat::Or(o) => Ok(format!("({})", o.cases.iter().map(|x| pat_pred(x, c)).collect::<R<Vec<_>>>()?.join(" || "))),
        Pat::Paren(pp) => pat_pred(&pp.pat, c),
        _ => Err(format!("unsupported pattern `{}`", norm_tokens(p))),
    }
}

/// a predicate about the character variable `c`
fn char_pred(e: &Expr, c: &str) -> R<String> {
    let e = strip(e);
    match e {
        Expr::Binary(b) => match b.op {
            BinOp::And(_) => Ok(format!("({} && {})", char_pred(&b.left, c)?, char_pred(&b.right, c)?)),
            BinOp::Or(_) => Ok(format!("({} || {})", char_pred(&b.left, c)?, char_pred(&b.right, c)?)),
            BinOp::Eq(_) | BinOp::Ne(_) => {
                let (l, r) = (strip(&b.left), strip(&b.right));
                let lit = if is_path(l, c) { char_lit(r)? } else if is_path(r, c) { char_lit(l)? } else { return Err(format!("comparison `{}` is not about `{c}`", norm_tokens(e))) };
                Ok(format!("({}({c} == {}))", if matches!(b.op, BinOp::Ne(_)) { "!" } else { "" }, lean_char(lit)))
            }
            _ => Err(format!("unsupported operator in `{}`", norm_tokens(e))),
        },
        Expr::Unary(u) if matches!(u.op, UnOp::Not(_)) => Ok(format!("(!{})", char_pred(&u.expr, c)?)),
        Expr::MethodCall(m) if is_path(strip(&m.receiver), c) && m.args.is_empty() => {
            let f = match m.method.to_string().as_str() {
                "is_ascii_alphabetic" => "isAlpha", "is_ascii_alphanumeric" => "isAlnum", "is_ascii_digit" => "isDigit",
                "is_ascii_lowercase" => "isLower", "is_ascii_uppercase" => "isUpper",
                other => return Err(format!("character class `{other}` is outside the ASCII model")),
            };
            Ok(format!("(SeaQ.CharClass.{f} {c})"))
        }
        // ('a'..='z').contains(&c)
        Expr::MethodCall(m) if m.method == "contains" && m.args.len() == 1 && is_path(strip(&m.args[0]), c) => match strip(&m.receiver) {
            Expr::Range(r) if matches!(r.limits, syn::RangeLimits::Closed(_)) => {
                let lo = char_lit(r.start.as_ref().ok_or("open range")?)?;
                let hi = char_lit(r.end.as_ref().ok_or("open range")?)?;
                Ok(format!("(decide ({} ≤ {c}.toNat) && decide ({c}.toNat ≤ {}))", lo as u32, hi as u32))
            }
            other => Err(format!("unsupported receiver of contains: `{}`", norm_tokens(other))),
        },
        Expr::Macro(_) => { let (s, p) = parse_matches(e)?; if !is_path(strip(&s), c) { return Err("matches! on something else than the character".into()); } pat_pred(&p, c) }
        Expr::Lit(syn::ExprLit { lit: syn::Lit::Bool(b), .. }) => Ok(format!("{}", b.value)),
        other => Err(format!("unsupported character predicate `{}`", norm_tokens(other))),
    }
}

/// a list-of-chars expression rooted at `name.chars()`
fn chars_expr(e: &Expr, name: &str) -> R<String> {
    match strip(e) {
        Expr::MethodCall(m) => {
            let meth = m.method.to_string();
            if meth == "chars" && m.args.is_empty() && is_path(strip(&m.receiver), name) { return Ok("n".into()); }
            let inner = chars_expr(&m.receiver, name)?;
            match (meth.as_str(), m.args.len()) {
                ("take", 1) => Ok(format!("({inner}.take {})", usize_lit(&m.args[0])?)),
                ("skip", 1) => Ok(format!("({inner}.drop {})", usize_lit(&m.args[0])?)),
                ("rev", 0) => Ok(format!("({inner}.reverse)")),
                _ => Err(format!("unsupported iterator adaptor `{meth}`")),
            }
        }
        other => Err(format!("expected `{name}.chars()..`, found `{}`", norm_tokens(other))),
    }
}

/// a Bool expression about the name
fn name_pred(e: &Expr, name: &str) -> R<String> {
    let e = strip(e);
    match e {
        Expr::Binary(b) => match b.op {
            BinOp::And(_) => Ok(format!("({} && {})", name_pred(&b.left, name)?, name_pred(&b.right, name)?)),
            BinOp::Or(_) => Ok(format!("({} || {})", name_pred(&b.left, name)?, name_pred(&b.right, name)?)),
            _ => Err(format!("unsupported operator in `{}`", norm_tokens(e))),
        },
        Expr::Unary(u) if matches!(u.op, UnOp::Not(_)) => Ok(format!("(!{})", name_pred(&u.expr, name)?)),
        Expr::MethodCall(m) => {
            let meth = m.method.to_string();
            if is_path(strip(&m.receiver), name) {
                return match (meth.as_str(), m.args.len()) {
                    ("is_empty", 0) => Ok("n.isEmpty".into()),
                    ("contains", 1) if matches!(strip(&m.args[0]), Expr::Closure(_)) => { let (c, body) = closure_of(&m.args[0])?; Ok(format!("(n.any (fun {c} => {}))", char_pred(body, &c)?)) }
                    ("contains", 1) => Ok(format!("(n.contains {})", lean_char(char_lit(strip(&m.args[0]))?))),
                    ("starts_with", 1) => Ok(format!("(n.head? == some {})", lean_char(char_lit(strip(&m.args[0]))?))),
                    _ => Err(format!("unsupported method `{meth}` on the name")),
                };
            }
            match (meth.as_str(), m.args.len()) {
                ("all", 1) | ("any", 1) => {
                    let l = chars_expr(&m.receiver, name)?;
                    let (c, body) = closure_of(&m.args[0])?;
                    Ok(format!("({l}.{meth} (fun {c} => {}))", char_pred(body, &c)?))
                }
                _ => Err(format!("unsupported method `{meth}` in `{}`", norm_tokens(e))),
            }
        }
        Expr::Lit(syn::ExprLit { lit: syn::Lit::Bool(b), .. }) => Ok(format!("{}", b.value)),
        other => Err(format!("unsupported expression `{}`", norm_tokens(other))),
    }
}

pub fn generate(repo: &Path) -> R<Vec<(String, String)>> {
    let rel = "sea-query-derive/src/lib.rs";
    let file = parse_file(repo, rel)?;
    let f = free_fn(&file, "must_be_valid_iden").ok_or(format!("{rel}: fn must_be_valid_iden not found"))?;
    if f.sig.inputs.len() != 1 { return Err(format!("{rel}: must_be_valid_iden does not take one argument")); }
    let name = match &f.sig.inputs[0] {
        syn::FnArg::Typed(t) => match &*t.pat { Pat::Ident(i) => i.ident.to_string(), _ => return Err("parameter is not a plain name".into()) },
        _ => return Err("unexpected receiver".into()),
    };
    let body = sole_expr(&f.block).map_err(|e| format!("{rel}: must_be_valid_iden: {e}"))?;
    let lean = name_pred(body, &name).map_err(|e| format!("{rel}: must_be_valid_iden: {e}"))?;
    let mut s = String::new();
    s.push_str("-- GENERATED by seaq-translate from /repo/sea-query-derive/src/lib.rs — do not edit.\nimport SeaQ.Model.CharClass\nnamespace SeaQ.Gen.ValidIden\n\n");
    s.push_str(&format!("/-- `fn must_be_valid_iden(name: &str) -> bool`: `{}` -/\n", norm_tokens(body).replace("-/", "- /")));
    s.push_str(&format!("def mustBeValidIden (n : List Char) : Bool :=\n  {lean}\n"));
    s.push_str("\nend SeaQ.Gen.ValidIden\n");
    Ok(vec![("ValidIden.lean".into(), s)])
}
