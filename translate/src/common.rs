//! syn helpers shared by the extractors.
use std::path::Path;
use syn::{Expr, ExprLit, ImplItem, ImplItemFn, Item, Lit, Pat, TraitItem};

pub type R<T> = Result<T, String>;

pub fn parse_file(repo: &Path, rel: &str) -> R<syn::File> {
    let p = repo.join(rel);
    let src = std::fs::read_to_string(&p).map_err(|e| format!("cannot read {}: {e}", p.display()))?;
    syn::parse_file(&src).map_err(|e| format!("cannot parse {rel}: {e}"))
}

pub fn type_name(ty: &syn::Type) -> String {
    match ty {
        syn::Type::Path(p) => p.path.segments.last().map(|s| s.ident.to_string()).unwrap_or_default(),
        _ => String::new(),
    }
}

/// methods of `impl [Trait for] Type` blocks (trait_name None = inherent impl)
pub fn impl_fns<'a>(file: &'a syn::File, trait_name: Option<&str>, ty: &str) -> Vec<&'a ImplItemFn> {
    let mut out = Vec::new();
    for it in &file.items {
        if let Item::Impl(im) = it {
            if type_name(&im.self_ty) != ty { continue; }
            let tn = im.trait_.as_ref().map(|(_, p, _)| p.segments.last().unwrap().ident.to_string());
            if tn.as_deref() != trait_name { continue; }
            for ii in &im.items {
                if let ImplItem::Fn(f) = ii { out.push(f); }
            }
        }
    }
    out
}

pub fn has_impl(file: &syn::File, trait_name: &str, ty: &str) -> bool {
    file.items.iter().any(|it| match it {
        Item::Impl(im) => type_name(&im.self_ty) == ty
            && im.trait_.as_ref().map(|(_, p, _)| p.segments.last().unwrap().ident == trait_name).unwrap_or(false),
        _ => false,
    })
}

pub fn impl_fn<'a>(file: &'a syn::File, trait_name: Option<&str>, ty: &str, name: &str) -> Option<&'a ImplItemFn> {
    impl_fns(file, trait_name, ty).into_iter().find(|f| f.sig.ident == name)
}

/// default method bodies of a trait definition
pub fn trait_fn<'a>(file: &'a syn::File, tr: &str, name: &str) -> Option<&'a syn::TraitItemFn> {
    for it in &file.items {
        if let Item::Trait(t) = it {
            if t.ident != tr { continue; }
            for ti in &t.items {
                if let TraitItem::Fn(f) = ti {
                    if f.sig.ident == name { return Some(f); }
                }
            }
        }
    }
    None
}

pub fn free_fn<'a>(file: &'a syn::File, name: &str) -> Option<&'a syn::ItemFn> {
    file.items.iter().find_map(|it| match it { Item::Fn(f) if f.sig.ident == name => Some(f), _ => None })
}

/// the single tail expression of a block `{ expr }`
pub fn sole_expr(b: &syn::Block) -> R<&Expr> {
    if b.stmts.len() != 1 { return Err(format!("expected a single-expression body, found {} statements", b.stmts.len())); }
    match &b.stmts[0] {
        syn::Stmt::Expr(e, None) => Ok(e),
        syn::Stmt::Macro(_) => Err("body is a statement macro".into()),
        _ => Err("body is not a tail expression".into()),
    }
}

pub fn char_lit(e: &Expr) -> R<char> {
    match e {
        Expr::Lit(ExprLit { lit: Lit::Char(c), .. }) => Ok(c.value()),
        Expr::Paren(p) => char_lit(&p.expr),
        _ => Err(format!("expected a char literal, found `{}`", quote::quote!(#e))),
    }
}

/// a char or string literal as a list of chars
pub fn chars_lit(e: &Expr) -> R<Vec<char>> {
    match e {
        Expr::Lit(ExprLit { lit: Lit::Char(c), .. }) => Ok(vec![c.value()]),
        Expr::Lit(ExprLit { lit: Lit::Str(s), .. }) => Ok(s.value().chars().collect()),
        _ => Err(format!("expected a char or string literal, found `{}`", quote::quote!(#e))),
    }
}

pub fn pat_chars(p: &Pat) -> R<Vec<char>> {
    match p {
        Pat::Lit(l) => match &l.lit { Lit::Char(c) => Ok(vec![c.value()]), _ => Err("non-char literal pattern".into()) },
        Pat::Or(o) => { let mut v = Vec::new(); for c in &o.cases { v.extend(pat_chars(c)?); } Ok(v) }
        Pat::Paren(pp) => pat_chars(&pp.pat),
        _ => Err(format!("unsupported pattern `{}`", quote::quote!(#p))),
    }
}

/// `matches!(scrutinee, pattern)` → (scrutinee, pattern)
pub fn parse_matches(e: &Expr) -> R<(Expr, Pat)> {
    use syn::parse::Parser;
    let m = match e { Expr::Macro(m) => m, _ => return Err(format!("expected matches!(..), found `{}`", quote::quote!(#e))) };
    if !m.mac.path.is_ident("matches") { return Err("expected the matches! macro".into()); }
    let parser = |input: syn::parse::ParseStream| -> syn::Result<(Expr, Pat)> {
        let e: Expr = input.parse()?;
        let _: syn::Token![,] = input.parse()?;
        let p = Pat::parse_multi_with_leading_vert(input)?;
        let _ : Option<syn::Token![,]> = input.parse()?;
        if !input.is_empty() { return Err(input.error("matches! with a guard is not supported")); }
        Ok((e, p))
    };
    parser.parse2(m.mac.tokens.clone()).map_err(|e| format!("cannot parse matches!: {e}"))
}

pub fn is_path(e: &Expr, name: &str) -> bool {
    matches!(e, Expr::Path(p) if p.path.is_ident(name))
}

/// Lean syntax for a char
pub fn lean_char(c: char) -> String { format!("Char.ofNat {}", c as u32) }
pub fn lean_chars(v: &[char]) -> String {
    format!("[{}]", v.iter().map(|c| lean_char(*c)).collect::<Vec<_>>().join(", "))
}
pub fn lean_pairs(v: &[(char, char)]) -> String {
    format!("[{}]", v.iter().map(|(a, b)| format!("({}, {})", lean_char(*a), lean_char(*b))).collect::<Vec<_>>().join(", "))
}
pub fn lean_str(s: &str) -> String {
    let mut o = String::from("\"");
    for c in s.chars() {
        match c {
            '"' => o.push_str("\\\""),
            '\\' => o.push_str("\\\\"),
            '\n' => o.push_str("\\n"),
            '\t' => o.push_str("\\t"),
            c if (c as u32) < 0x20 || (c as u32) == 0x7f => o.push_str(&format!("\\x{:02x}", c as u32)),
            c => o.push(c),
        }
    }
    o.push('"');
    o
}

pub fn norm_tokens<T: quote::ToTokens>(t: &T) -> String {
    quote::quote!(#t).to_string().split_whitespace().collect::<Vec<_>>().join(" ")
}
