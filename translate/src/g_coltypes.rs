//! G12 (column type names): the `match column_type { .. }` of `prepare_column_type` of each backend
//! (`src/backend/{mysql,postgres,sqlite}/table.rs`), as a table: per arm the `ColumnType` variants it
//! covers and the type-name *templates* it can write (string literals, `format!` strings with their
//! named parameters), whether it can panic (`unimplemented!` / `panic!`) and whether its value is
//! computed some other way (custom identifier, enum name, nested type).  MySQL's UNSIGNED suffix
//! list and Postgres' auto-increment type table are extracted alongside.
use crate::common::*;
use std::path::Path;
use syn::{Expr, Pat, Stmt};

#[derive(Default, Debug)]
struct Leaves { templates: Vec<String>, unsupported: bool, opaque: bool }

fn macro_name(m: &syn::ExprMacro) -> String { m.mac.path.segments.last().map(|s| s.ident.to_string()).unwrap_or_default() }

fn leaves(e: &Expr, out: &mut Leaves) {
    match e {
        Expr::Lit(syn::ExprLit { lit: syn::Lit::Str(s), .. }) => out.templates.push(s.value()),
        Expr::Macro(m) => match macro_name(m).as_str() {
            "format" => {
                let toks: Vec<proc_macro2::TokenTree> = m.mac.tokens.clone().into_iter().collect();
                match toks.first() {
                    Some(proc_macro2::TokenTree::Literal(l)) if toks.len() == 1 => match syn::parse_str::<syn::LitStr>(&l.to_string()) { Ok(s) => out.templates.push(s.value()), Err(_) => out.opaque = true },
                    _ => out.opaque = true, // positional arguments: computed text
                }
            }
            "unimplemented" | "panic" | "todo" | "unreachable" => out.unsupported = true,
            // `write!(sql, "literal")`
            "write" => {
                use syn::parse::Parser;
                let parser = syn::punctuated::Punctuated::<Expr, syn::Token![,]>::parse_terminated;
                match parser.parse2(m.mac.tokens.clone()) {
                    Ok(args) if args.len() == 2 => match &args[1] { Expr::Lit(syn::ExprLit { lit: syn::Lit::Str(s), .. }) => out.templates.push(s.value()), _ => out.opaque = true },
                    _ => out.opaque = true,
                }
            }
            _ => out.opaque = true,
        },
        Expr::MethodCall(mc) if mc.method == "unwrap" => leaves(&mc.receiver, out),
        Expr::MethodCall(mc) if ["into", "to_owned", "to_string", "as_str", "into_owned"].contains(&mc.method.to_string().as_str()) => match &*mc.receiver {
            Expr::Path(_) | Expr::Field(_) => out.opaque = true, // a variable's text (custom identifier, enum name)
            r => leaves(r, out),
        },
        Expr::Match(m) => for a in &m.arms { leaves(&a.body, out); },
        Expr::If(i) => { block_leaves(&i.then_branch, out); match &i.else_branch { Some((_, e)) => leaves(e, out), None => {} } }
        Expr::Block(b) => block_leaves(&b.block, out),
        Expr::Paren(p) => leaves(&p.expr, out),
        Expr::Group(g) => leaves(&g.expr, out),
        Expr::Reference(r) => leaves(&r.expr, out),
        // `integer("tinyint")`: the literal, or "integer" under feature option-sqlite-exact-column-type
        Expr::Call(c) if matches!(&*c.func, Expr::Path(p) if p.path.is_ident("integer")) && c.args.len() == 1 => { out.templates.push("integer".into()); leaves(&c.args[0], out); }
        _ => out.opaque = true,
    }
}
fn block_leaves(b: &syn::Block, out: &mut Leaves) {
    // statements before the tail may only be guards that panic; anything else makes the value opaque
    let n = b.stmts.len();
    for (i, s) in b.stmts.iter().enumerate() {
        match s {
            Stmt::Expr(e, None) if i + 1 == n => leaves(e, out),
            Stmt::Expr(Expr::If(g), _) if g.else_branch.is_none() => { let mut inner = Leaves::default(); block_leaves(&g.then_branch, &mut inner); if inner.unsupported && inner.templates.is_empty() && !inner.opaque { out.unsupported = true; } else { out.opaque = true; } }
            Stmt::Macro(m) if ["unimplemented", "panic"].contains(&m.mac.path.segments.last().map(|s| s.ident.to_string()).unwrap_or_default().as_str()) => out.unsupported = true,
            _ => out.opaque = true,
        }
    }
}

fn pat_variants(p: &Pat, out: &mut Vec<String>) -> R<()> {
    match p {
        Pat::Or(o) => { for c in &o.cases { pat_variants(c, out)?; } Ok(()) }
        Pat::Path(pp) => { out.push(pp.path.segments.last().unwrap().ident.to_string()); Ok(()) }
        Pat::Ident(i) => { out.push(i.ident.to_string()); Ok(()) }
        Pat::TupleStruct(t) => { out.push(t.path.segments.last().unwrap().ident.to_string()); Ok(()) }
        Pat::Struct(s) => { out.push(s.path.segments.last().unwrap().ident.to_string()); Ok(()) }
        Pat::Paren(pp) => pat_variants(&pp.pat, out),
        other => Err(format!("unsupported pattern `{}`", norm_tokens(other))),
    }
}

/// find the first `match <scrutinee> { .. }` with the given scrutinee name, anywhere in the function (also inside macro arguments)
struct Finder<'a> { scrutinee: &'a str, found: Option<syn::ExprMatch> }
impl<'a, 'ast> syn::visit::Visit<'ast> for Finder<'a> {
    fn visit_expr_match(&mut self, m: &'ast syn::ExprMatch) {
        let scrut = match &*m.expr { Expr::Reference(r) => &*r.expr, e => e };
        if self.found.is_none() && is_path(scrut, self.scrutinee) { self.found = Some(m.clone()); return; }
        syn::visit::visit_expr_match(self, m);
    }
    fn visit_macro(&mut self, m: &'ast syn::Macro) {
        use syn::parse::Parser;
        let parser = syn::punctuated::Punctuated::<Expr, syn::Token![,]>::parse_terminated;
        if let Ok(args) = parser.parse2(m.tokens.clone()) { for a in args.iter() { self.visit_expr(a); } }
    }
}
fn find_match(block: &syn::Block, scrutinee: &str) -> Option<syn::ExprMatch> {
    use syn::visit::Visit;
    let mut f = Finder { scrutinee, found: None };
    f.visit_block(block);
    f.found
}

fn segs(t: &str) -> String {
    // "varchar({length})" -> [.lit "varchar(", .par "length", .lit ")"]
    let mut out: Vec<String> = Vec::new();
    let mut cur = String::new();
    let cs: Vec<char> = t.chars().collect();
    let mut i = 0;
    while i < cs.len() {
        if cs[i] == '{' && i + 1 < cs.len() && cs[i + 1] == '{' { cur.push('{'); i += 2; continue; }
        if cs[i] == '}' && i + 1 < cs.len() && cs[i + 1] == '}' { cur.push('}'); i += 2; continue; }
        if cs[i] == '{' {
            let mut j = i + 1; let mut name = String::new();
            while j < cs.len() && cs[j] != '}' { name.push(cs[j]); j += 1; }
            if !cur.is_empty() { out.push(format!(".lit {}", lean_str(&cur))); cur.clear(); }
            out.push(format!(".par {}", lean_str(&name)));
            i = j + 1; continue;
        }
        cur.push(cs[i]); i += 1;
    }
    if !cur.is_empty() { out.push(format!(".lit {}", lean_str(&cur))); }
    format!("[{}]", out.join(", "))
}

fn table(repo: &Path, rel: &str, ty: &str, inherent: bool) -> R<(String, Vec<String>)> {
    let file = parse_file(repo, rel)?;
    let f = if inherent { impl_fn(&file, None, ty, "prepare_column_type") } else { impl_fn(&file, Some("TableBuilder"), ty, "prepare_column_type") }
        .ok_or(format!("{rel}: prepare_column_type of {ty} not found"))?;
    let m = find_match(&f.block, "column_type").ok_or(format!("{rel}: no `match column_type` in prepare_column_type"))?;
    let mut rows = Vec::new();
    let mut seen = Vec::new();
    for arm in &m.arms {
        let mut vs = Vec::new();
        pat_variants(&arm.pat, &mut vs).map_err(|e| format!("{rel}: {e}"))?;
        if arm.guard.is_some() { return Err(format!("{rel}: match arm with a guard for {:?}: not understood", vs)); }
        if vs.iter().any(|v| v == "_") { return Err(format!("{rel}: wildcard arm: the table would not be exhaustive")); }
        let mut lv = Leaves::default();
        leaves(&arm.body, &mut lv);
        seen.extend(vs.clone());
        rows.push(format!("  ⟨[{}], [{}], {}, {}⟩", vs.iter().map(|v| lean_str(v)).collect::<Vec<_>>().join(", "), lv.templates.iter().map(|t| segs(t)).collect::<Vec<_>>().join(", "), lv.unsupported, lv.opaque));
    }
    Ok((format!("[\n{}]", rows.join(",\n")), seen))
}

pub fn generate(repo: &Path) -> R<Vec<(String, String)>> {
    let mut s = String::new();
    s.push_str("-- GENERATED by seaq-translate from /repo/src/backend/{mysql,postgres,sqlite}/table.rs — do not edit.\nnamespace SeaQ.Gen.ColTypes\n\n");
    s.push_str("inductive Seg where\n  | lit (s : String)\n  | par (name : String)\n  deriving DecidableEq, Repr\n\n");
    s.push_str("/-- one arm of `match column_type`: variants covered, type-name templates it can write, can it panic, is its text computed otherwise -/\nstructure Arm where\n  variants : List String\n  templates : List (List Seg)\n  unsupported : Bool\n  computed : Bool\n  deriving Repr\n\n");
    let mut all_variants: Vec<String> = Vec::new();
    for (b, rel, ty, inherent) in [("sqlite", "src/backend/sqlite/table.rs", "SqliteQueryBuilder", true), ("mysql", "src/backend/mysql/table.rs", "MysqlQueryBuilder", false), ("postgres", "src/backend/postgres/table.rs", "PostgresQueryBuilder", false)] {
        let (t, seen) = table(repo, rel, ty, inherent)?;
        s.push_str(&format!("def {b} : List Arm := {t}\n\n"));
        for v in seen { if !all_variants.contains(&v) { all_variants.push(v); } }
    }
    // MySQL: the variants that get the UNSIGNED suffix (`matches!(column_type, A | B | ..)` after the match)
    let file = parse_file(repo, "src/backend/mysql/table.rs")?;
    let f = impl_fn(&file, Some("TableBuilder"), "MysqlQueryBuilder", "prepare_column_type").ok_or("mysql prepare_column_type")?;
    let mut unsigned = Vec::new();
    for st in &f.block.stmts {
        if let Stmt::Expr(Expr::If(i), _) = st {
            if let Ok((_, p)) = parse_matches(&i.cond) {
                let body = norm_tokens(&i.then_branch);
                if body.contains("UNSIGNED") { pat_variants(&p, &mut unsigned).map_err(|e| format!("mysql UNSIGNED list: {e}"))?; }
            }
        }
    }
    if unsigned.is_empty() { return Err("src/backend/mysql/table.rs: the UNSIGNED suffix rule was not found".into()); }
    s.push_str(&format!("/-- MySQL: variants followed by ` UNSIGNED` -/\ndef mysqlUnsigned : List String := [{}]\n\n", unsigned.iter().map(|v| lean_str(v)).collect::<Vec<_>>().join(", ")));
    // Postgres: auto-increment types (`prepare_column_auto_increment`)
    let file = parse_file(repo, "src/backend/postgres/table.rs")?;
    let f = impl_fn(&file, None, "PostgresQueryBuilder", "prepare_column_auto_increment").ok_or("src/backend/postgres/table.rs: prepare_column_auto_increment not found")?;
    let m = find_match(&f.block, "column_type").ok_or("postgres: no `match column_type` in prepare_column_auto_increment")?;
    let mut rows = Vec::new();
    for arm in &m.arms {
        let mut vs = Vec::new();
        if matches!(&arm.pat, Pat::Wild(_)) { vs.push("_".to_string()); } else { pat_variants(&arm.pat, &mut vs).map_err(|e| format!("postgres serial table: {e}"))?; }
        let mut lv = Leaves::default();
        leaves(&arm.body, &mut lv);
        rows.push(format!("  ⟨[{}], [{}], {}, {}⟩", vs.iter().map(|v| lean_str(v)).collect::<Vec<_>>().join(", "), lv.templates.iter().map(|t| segs(t)).collect::<Vec<_>>().join(", "), lv.unsupported, lv.opaque));
    }
    s.push_str(&format!("/-- Postgres: the type written for an auto-increment column -/\ndef postgresSerial : List Arm := [\n{}]\n\n", rows.join(",\n")));
    s.push_str(&format!("/-- every `ColumnType` variant named in the three tables -/\ndef variants : List String := [{}]\n\nend SeaQ.Gen.ColTypes\n", all_variants.iter().map(|v| lean_str(v)).collect::<Vec<_>>().join(", ")));
    Ok(vec![("ColTypes.lean".into(), s)])
}
