//! G8: `mod hashable_value` of src/value.rs — arms of PartialEq / Hash for Value and the helper bodies.
use crate::common::*;
use std::path::Path;
use syn::{Expr, Item, Pat};

fn variant_of_pat(p: &Pat) -> R<String> {
    match p {
        Pat::TupleStruct(ts) => Ok(ts.path.segments.last().unwrap().ident.to_string()),
        Pat::Reference(r) => variant_of_pat(&r.pat),
        other => Err(format!("unexpected pattern `{}`", norm_tokens(other))),
    }
}

/// the binders of a one-field tuple-struct pattern (`Self::X(l)`), or of the two-field array pattern
fn binders(p: &Pat) -> Vec<String> {
    match p {
        Pat::TupleStruct(ts) => ts.elems.iter().map(|e| norm_tokens(e)).collect(),
        Pat::Reference(r) => binders(&r.pat),
        _ => Vec::new(),
    }
}

fn classify_eq(body: &Expr, l: &[String], r: &[String]) -> String {
    let t = norm_tokens(body);
    let t = t.strip_prefix("{ ").and_then(|x| x.strip_suffix(" }")).unwrap_or(&t).to_string();
    if l.len() == 1 && r.len() == 1 {
        let (a, b) = (&l[0], &r[0]);
        if t == format!("{a} == {b}") { return "derived".into(); }
        for k in ["f32", "f64", "json", "vector"] { if t == format!("cmp_{k} ({a} , {b})") { return k.into(); } }
    }
    if l.len() == 2 && r.len() == 2 && t == format!("{} == {} && {} == {}", l[0], r[0], l[1], r[1]) { return "array".into(); }
    format!("unknown:{t}")
}

fn classify_hash(body: &Expr, binder: &str) -> String {
    let t = norm_tokens(body);
    if t == format!("{binder} . hash (state)") { return "derived".into(); }
    if t == format!("hash_f32 ({binder} , state)") { return "f32".into(); }
    if t == format!("hash_f64 ({binder} , state)") { return "f64".into(); }
    if t == format!("hash_json ({binder} , state)") { return "json".into(); }
    if t == format!("hash_vector ({binder} , state)") { return "vector".into(); }
    if t == "{ array_type . hash (state) ; vec . hash (state) ; }" { return "array".into(); }
    format!("unknown:{t}")
}

const REF_BODIES: [(&str, &str); 8] = [
    ("hash_f32", "{ match v { Some (v) => OrderedFloat (* v) . hash (state) , None => \"null\" . hash (state) , } }"),
    ("hash_f64", "{ match v { Some (v) => OrderedFloat (* v) . hash (state) , None => \"null\" . hash (state) , } }"),
    ("cmp_f32", "{ match (l , r) { (Some (l) , Some (r)) => OrderedFloat (* l) . eq (& OrderedFloat (* r)) , (None , None) => true , _ => false , } }"),
    ("cmp_f64", "{ match (l , r) { (Some (l) , Some (r)) => OrderedFloat (* l) . eq (& OrderedFloat (* r)) , (None , None) => true , _ => false , } }"),
    ("hash_json", "{ match v { Some (v) => serde_json :: to_string (v) . unwrap () . hash (state) , None => \"null\" . hash (state) , } }"),
    ("cmp_json", "{ match (l , r) { (Some (l) , Some (r)) => serde_json :: to_string (l) . unwrap () . eq (& serde_json :: to_string (r) . unwrap ()) , (None , None) => true , _ => false , } }"),
    ("hash_vector", "{ match v { Some (v) => { for & value in v . as_slice () . iter () { hash_f32 (& Some (value) , state) ; } } None => \"null\" . hash (state) , } }"),
    ("cmp_vector", "{ match (l , r) { (Some (l) , Some (r)) => { let (l , r) = (l . as_slice () , r . as_slice ()) ; if l . len () != r . len () { return false ; } for (l , r) in l . iter () . zip (r . iter ()) { if ! cmp_f32 (& Some (* l) , & Some (* r)) { return false ; } } true } (None , None) => true , _ => false , } }"),
];

pub fn generate(repo: &Path) -> R<Vec<(String, String)>> {
    let file = parse_file(repo, "src/value.rs")?;
    // enum Value
    let mut variants = Vec::new();
    for it in &file.items { if let Item::Enum(e) = it { if e.ident == "Value" { for v in &e.variants { variants.push(v.ident.to_string()); } } } }
    if variants.is_empty() { return Err("enum Value not found".into()); }
    let m = file.items.iter().find_map(|it| match it { Item::Mod(m) if m.ident == "hashable_value" => m.content.as_ref().map(|c| &c.1), _ => None }).ok_or("mod hashable_value not found")?;
    let mut eq_arms: Vec<(String, String, String)> = Vec::new();
    let mut eq_fall = false;
    let mut hash_arms: Vec<(String, String)> = Vec::new();
    let mut hash_disc = false;
    let bodies_ok = true;
    let notes: Vec<String> = Vec::new();
    for it in m {
        match it {
            Item::Impl(im) if type_name(&im.self_ty) == "Value" => {
                let tr = im.trait_.as_ref().map(|(_, p, _)| p.segments.last().unwrap().ident.to_string()).unwrap_or_default();
                for ii in &im.items {
                    if let syn::ImplItem::Fn(f) = ii {
                        if tr == "PartialEq" && f.sig.ident == "eq" {
                            let e = sole_expr(&f.block)?;
                            let mt = match e { Expr::Match(m) => m, _ => return Err("PartialEq::eq body is not a match".into()) };
                            if norm_tokens(&*mt.expr) != "(self , other)" { return Err("PartialEq::eq does not match on (self, other)".into()); }
                            for arm in &mt.arms {
                                if arm.guard.is_some() { return Err("guarded arm in PartialEq::eq".into()); }
                                match &arm.pat {
                                    Pat::Wild(_) => { eq_fall = norm_tokens(&*arm.body) == "false"; }
                                    Pat::Tuple(t) if t.elems.len() == 2 => {
                                        let k = classify_eq(&arm.body, &binders(&t.elems[0]), &binders(&t.elems[1]));
                                        // a shape this translator does not know is "cannot read", not "wrong": the correspondence decides
                                        if k.starts_with("unknown:") { return Err(format!("PartialEq::eq arm for {}: unrecognised comparison `{}`", variant_of_pat(&t.elems[0])?, &k[8..])); }
                                        eq_arms.push((variant_of_pat(&t.elems[0])?, variant_of_pat(&t.elems[1])?, k));
                                    }
                                    other => return Err(format!("unexpected arm pattern `{}` in PartialEq::eq", norm_tokens(other))),
                                }
                            }
                        }
                        if tr == "Hash" && f.sig.ident == "hash" {
                            for st in &f.block.stmts {
                                match st {
                                    syn::Stmt::Expr(Expr::MethodCall(_), Some(_)) => { if norm_tokens(st) == "mem :: discriminant (self) . hash (state) ;" { hash_disc = true; } }
                                    syn::Stmt::Expr(Expr::Match(mt), _) => {
                                        if norm_tokens(&*mt.expr) != "self" { return Err("Hash::hash does not match on self".into()); }
                                        for arm in &mt.arms {
                                            let v = variant_of_pat(&arm.pat)?;
                                            let bs = binders(&arm.pat);
                                            let k = if bs.len() == 2 && norm_tokens(&*arm.body).replace("{ ", "").replace(" }", "").replace(" ;", "") == format!("{} . hash (state) {} . hash (state)", bs[0], bs[1]) { "array".to_string() }
                                                else { classify_hash(&arm.body, bs.first().map(|x| x.as_str()).unwrap_or("")) };
                                            if k.starts_with("unknown:") { return Err(format!("Hash::hash arm for {v}: unrecognised hashing `{}`", &k[8..])); }
                                            hash_arms.push((v, k));
                                        }
                                    }
                                    _ => {}
                                }
                            }
                        }
                    }
                }
            }
            Item::Fn(f) => {
                let name = f.sig.ident.to_string();
                if let Some((_, want)) = REF_BODIES.iter().find(|(n, _)| *n == name) {
                    let got = norm_tokens(&f.block);
                    if got != *want { return Err(format!("{name}: the body is not the modelled one (cannot be read by this translator)")); }
                }
            }
            _ => {}
        }
    }
    let mut s = String::new();
    s.push_str("-- GENERATED by seaq-translate from /repo/src/value.rs (enum Value, mod hashable_value) — do not edit.\nnamespace SeaQ.Gen.Hashable\n\n");
    s.push_str(&format!("def variants : List String := [{}]\n", variants.iter().map(|v| lean_str(v)).collect::<Vec<_>>().join(", ")));
    s.push_str(&format!("/-- arms of `PartialEq::eq`: (left variant, right variant, how the payloads are compared) -/\ndef eqArms : List (String × String × String) := [{}]\n", eq_arms.iter().map(|(a, b, k)| format!("({}, {}, {})", lean_str(a), lean_str(b), lean_str(k))).collect::<Vec<_>>().join(", ")));
    s.push_str(&format!("def eqFallthroughFalse : Bool := {}\n", eq_fall));
    s.push_str(&format!("/-- arms of `Hash::hash`: (variant, how the payload is hashed) -/\ndef hashArms : List (String × String) := [{}]\n", hash_arms.iter().map(|(a, k)| format!("({}, {})", lean_str(a), lean_str(k))).collect::<Vec<_>>().join(", ")));
    s.push_str(&format!("def hashesDiscriminant : Bool := {}\n", hash_disc));
    s.push_str(&format!("/-- the bodies of cmp_f32/f64/json/vector and hash_f32/f64/json/vector are the modelled ones{} -/\ndef helperBodiesOk : Bool := {}\n\n", if notes.is_empty() { String::new() } else { format!(" ({})", notes.join("; ")) }, bodies_ok));
    s.push_str("def kindOf (v : String) : String :=\n  if v == \"Float\" then \"f32\" else if v == \"Double\" then \"f64\" else if v == \"Json\" then \"json\"\n  else if v == \"Vector\" then \"vector\" else if v == \"Array\" then \"array\" else \"derived\"\n\n");
    s.push_str("/-- every variant: exactly one equality arm, diagonal, of the expected kind; a hash arm of the same kind -/\ndef armsOK : Bool :=\n  eqFallthroughFalse && helperBodiesOk &&\n  eqArms.all (fun a => a.1 == a.2.1 && a.2.2 == kindOf a.1) &&\n  hashArms.all (fun a => a.2 == kindOf a.1) &&\n  variants.all (fun v => (eqArms.filter (fun a => a.1 == v)).length == 1 && (hashArms.filter (fun a => a.1 == v)).length == 1)\n");
    s.push_str("\nend SeaQ.Gen.Hashable\n");
    Ok(vec![("Hashable.lean".into(), s)])
}
