//! G9 (spell): the spelling tables of the query renderer — binary operators (common, Postgres, SQLite) and
//! function names (common with the per-backend hooks, Postgres) — read from the `match` arms of
//! `prepare_bin_oper_common`, the backends' `prepare_bin_oper`, `prepare_function_name_common` and Postgres'
//! `prepare_function_name`.  An arm is `Enum::Variant => "literal"` or `Enum::Variant => self.hook()`, where
//! `hook` is a `QueryBuilder` method whose default body and backend overrides are a string literal.
//! The numbering of variants is the statement model's (Model/Stmt.lean, Model/Dialects.lean `opNames`); a variant
//! the model does not know is ignored, a variant the model knows and the source does not spell is an error.
use crate::common::*;
use std::collections::BTreeMap;
use std::path::Path;
use syn::visit::Visit;
use syn::{Expr, Pat};

#[derive(Clone, Debug)]
enum Spell { Lit(String), Hook(String) }

struct Arms { out: BTreeMap<(String, String), Spell> }

impl<'ast> Visit<'ast> for Arms {
    fn visit_arm(&mut self, arm: &'ast syn::Arm) {
        if let Pat::Path(p) = &arm.pat {
            let segs: Vec<String> = p.path.segments.iter().map(|s| s.ident.to_string()).collect();
            if segs.len() == 2 {
                let body = { let mut b = &*arm.body; loop { match b { Expr::Paren(x) => b = &x.expr, Expr::Group(x) => b = &x.expr, _ => break } } b };
                match body {
                    Expr::Lit(syn::ExprLit { lit: syn::Lit::Str(s), .. }) => { self.out.insert((segs[0].clone(), segs[1].clone()), Spell::Lit(s.value())); }
                    Expr::MethodCall(m) if m.args.is_empty() && is_path(&m.receiver, "self") => { self.out.insert((segs[0].clone(), segs[1].clone()), Spell::Hook(m.method.to_string())); }
                    // `Enum::Variant => write!(sql, "LITERAL").unwrap()`
                    Expr::MethodCall(m) if m.method == "unwrap" && m.args.is_empty() => { if let Some(t) = written_literal(&m.receiver) { self.out.insert((segs[0].clone(), segs[1].clone()), Spell::Lit(t)); } }
                    _ => {}
                }
            }
        }
        syn::visit::visit_arm(self, arm);
    }
    // the tables sit inside `write!(sql, "{}", match .. { .. })`
    fn visit_macro(&mut self, m: &'ast syn::Macro) {
        use syn::parse::Parser;
        let parser = syn::punctuated::Punctuated::<Expr, syn::Token![,]>::parse_terminated;
        if let Ok(args) = parser.parse2(m.tokens.clone()) {
            for a in args.iter() { let mut inner = Arms { out: BTreeMap::new() }; inner.visit_expr(a); self.out.extend(inner.out); }
        }
    }
}

/// `write!(<writer>, "LITERAL")` with a literal free of format directives
fn written_literal(e: &Expr) -> Option<String> {
    use syn::parse::Parser;
    let Expr::Macro(m) = e else { return None };
    if !m.mac.path.is_ident("write") { return None; }
    let args = syn::punctuated::Punctuated::<Expr, syn::Token![,]>::parse_terminated.parse2(m.mac.tokens.clone()).ok()?;
    if args.len() != 2 { return None; }
    match &args[1] { Expr::Lit(syn::ExprLit { lit: syn::Lit::Str(s), .. }) if !s.value().contains('{') && !s.value().contains('}') => Some(s.value()), _ => None }
}

fn arms_of_block(b: &syn::Block) -> BTreeMap<(String, String), Spell> {
    let mut a = Arms { out: BTreeMap::new() };
    a.visit_block(b);
    a.out
}

fn str_body(b: &syn::Block) -> R<String> {
    match sole_expr(b)? {
        Expr::Lit(syn::ExprLit { lit: syn::Lit::Str(s), .. }) => Ok(s.value()),
        other => Err(format!("expected a string literal body, found `{}`", norm_tokens(other))),
    }
}

const BIN_COMMON: [(&str, u32); 27] = [("And", 0), ("Or", 1), ("Like", 2), ("NotLike", 3), ("Is", 4), ("IsNot", 5), ("In", 6), ("NotIn", 7), ("Between", 8), ("NotBetween", 9),
    ("Equal", 10), ("NotEqual", 11), ("SmallerThan", 12), ("GreaterThan", 13), ("SmallerThanOrEqual", 14), ("GreaterThanOrEqual", 15), ("Add", 16), ("Sub", 17), ("Mul", 18), ("Div", 19), ("Mod", 20),
    ("BitAnd", 21), ("BitOr", 22), ("LShift", 23), ("RShift", 24), ("As", 25), ("Escape", 26)];
const BIN_PG: [(&str, u32); 20] = [("ILike", 30), ("NotILike", 31), ("Matches", 32), ("Contains", 33), ("Contained", 34), ("Concatenate", 35), ("Overlap", 36), ("Similarity", 37), ("WordSimilarity", 38),
    ("StrictWordSimilarity", 39), ("SimilarityDistance", 40), ("WordSimilarityDistance", 41), ("StrictWordSimilarityDistance", 42), ("GetJsonField", 43), ("CastJsonField", 44), ("Regex", 45),
    ("RegexCaseInsensitive", 46), ("EuclideanDistance", 47), ("NegativeInnerProduct", 48), ("CosineDistance", 49)];
const BIN_SQLITE: [(&str, u32); 4] = [("Glob", 60), ("Match", 61), ("GetJsonField", 62), ("CastJsonField", 63)];
const JOIN: [(&str, u32); 6] = [("Join", 0), ("CrossJoin", 1), ("InnerJoin", 2), ("LeftJoin", 3), ("RightJoin", 4), ("FullOuterJoin", 5)];
const LOCK: [(&str, u32); 4] = [("Update", 0), ("NoKeyUpdate", 1), ("Share", 2), ("KeyShare", 3)];
const LOCK_BEHAVIOR: [(&str, u32); 2] = [("Nowait", 0), ("SkipLocked", 1)];
const SUBQ: [(&str, u32); 4] = [("Exists", 0), ("Any", 1), ("Some", 2), ("All", 3)];
const KEYWORD: [(&str, u32); 4] = [("Null", 0), ("CurrentDate", 1), ("CurrentTime", 2), ("CurrentTimestamp", 3)];
const FN_COMMON: [(&str, u32); 19] = [("Max", 0), ("Min", 1), ("Sum", 2), ("Avg", 3), ("Abs", 4), ("Coalesce", 5), ("Count", 6), ("IfNull", 7), ("Greatest", 8), ("Least", 9), ("CharLength", 10), ("Cast", 11),
    ("Lower", 12), ("Upper", 13), ("BitAnd", 14), ("BitOr", 15), ("Random", 16), ("Round", 17), ("Md5", 18)];
const FN_PG: [(&str, u32); 16] = [("ToTsquery", 0), ("ToTsvector", 1), ("PhrasetoTsquery", 2), ("PlaintoTsquery", 3), ("WebsearchToTsquery", 4), ("TsRank", 5), ("TsRankCd", 6), ("StartsWith", 7),
    ("GenRandomUUID", 8), ("JsonBuildObject", 9), ("JsonAgg", 10), ("ArrayAgg", 11), ("DateTrunc", 12), ("Any", 13), ("Some", 14), ("All", 15)];

fn table(name: &str, doc: &str, en: &str, ids: &[(&str, u32)], arms: &BTreeMap<(String, String), Spell>, hook: &dyn Fn(&str) -> R<String>) -> R<String> {
    let mut s = format!("/-- {doc} -/\ndef {name} : Nat → Option String\n");
    for (v, id) in ids {
        let sp = arms.get(&(en.to_string(), v.to_string())).ok_or(format!("{name}: no spelling arm for {en}::{v}"))?;
        let text = match sp { Spell::Lit(t) => t.clone(), Spell::Hook(h) => hook(h)? };
        s.push_str(&format!("  | {id} => some {}\n", lean_str(&text)));
    }
    s.push_str("  | _ => none\n\n");
    Ok(s)
}

pub fn generate(repo: &Path) -> R<Vec<(String, String)>> {
    let qb = parse_file(repo, "src/backend/query_builder.rs")?;
    let files = [("Mysql", "MysqlQueryBuilder", parse_file(repo, "src/backend/mysql/query.rs")?), ("Postgres", "PostgresQueryBuilder", parse_file(repo, "src/backend/postgres/query.rs")?),
        ("Sqlite", "SqliteQueryBuilder", parse_file(repo, "src/backend/sqlite/query.rs")?)];
    let no_hook = |h: &str| -> R<String> { Err(format!("unexpected hook `{h}` in an operator table")) };
    let common = trait_fn(&qb, "QueryBuilder", "prepare_bin_oper_common").and_then(|f| f.default.as_ref()).ok_or("QueryBuilder::prepare_bin_oper_common not found")?;
    let mut out = String::from("-- GENERATED by seaq-translate from /repo/src/backend/{query_builder.rs,mysql,postgres,sqlite} — do not edit.\nnamespace SeaQ.Gen.Spell\n\n");
    out.push_str(&table("binOpCommon", "`prepare_bin_oper_common`", "BinOper", &BIN_COMMON, &arms_of_block(common), &no_hook)?);
    // the dispatcher itself must be the common table for every backend that does not override it
    let disp = trait_fn(&qb, "QueryBuilder", "prepare_bin_oper").and_then(|f| f.default.as_ref()).ok_or("QueryBuilder::prepare_bin_oper not found")?;
    if !norm_tokens(disp).contains("self . prepare_bin_oper_common (bin_oper , sql)") { return Err("QueryBuilder::prepare_bin_oper no longer delegates to prepare_bin_oper_common".into()); }
    for (b, ty, f) in &files {
        let over = impl_fn(f, Some("QueryBuilder"), ty, "prepare_bin_oper");
        match *b {
            "Mysql" => if over.is_some() { return Err("MysqlQueryBuilder overrides prepare_bin_oper (the model has no MySQL operator table)".into()); },
            "Postgres" => { let o = over.ok_or("PostgresQueryBuilder::prepare_bin_oper not found")?;
                if !norm_tokens(&o.block).contains("self . prepare_bin_oper_common (bin_oper , sql)") { return Err("Postgres prepare_bin_oper does not fall back to the common table".into()); }
                out.push_str(&table("binOpPg", "Postgres `prepare_bin_oper`", "PgBinOper", &BIN_PG, &arms_of_block(&o.block), &no_hook)?); }
            _ => { let o = over.ok_or("SqliteQueryBuilder::prepare_bin_oper not found")?;
                if !norm_tokens(&o.block).contains("self . prepare_bin_oper_common (bin_oper , sql)") { return Err("SQLite prepare_bin_oper does not fall back to the common table".into()); }
                out.push_str(&table("binOpSqlite", "SQLite `prepare_bin_oper`", "SqliteBinOper", &BIN_SQLITE, &arms_of_block(&o.block), &no_hook)?); }
        }
    }
    let fcommon = trait_fn(&qb, "QueryBuilder", "prepare_function_name_common").and_then(|f| f.default.as_ref()).ok_or("QueryBuilder::prepare_function_name_common not found")?;
    let farms = arms_of_block(fcommon);
    for (b, ty, f) in &files {
        let hook = |h: &str| -> R<String> {
            if let Some(o) = impl_fn(f, Some("QueryBuilder"), ty, h) { return str_body(&o.block).map_err(|e| format!("{ty}::{h}: {e}")); }
            let d = trait_fn(&qb, "QueryBuilder", h).and_then(|f| f.default.as_ref()).ok_or(format!("QueryBuilder::{h} has no default body"))?;
            str_body(d).map_err(|e| format!("QueryBuilder::{h}: {e}"))
        };
        out.push_str(&table(&format!("fn{b}"), &format!("`prepare_function_name_common` with the hooks of {ty}"), "Function", &FN_COMMON, &farms, &hook)?);
        let over = impl_fn(f, Some("QueryBuilder"), ty, "prepare_function_name");
        if *b == "Postgres" {
            let o = over.ok_or("PostgresQueryBuilder::prepare_function_name not found")?;
            if !norm_tokens(&o.block).contains("self . prepare_function_name_common (function , sql)") { return Err("Postgres prepare_function_name does not fall back to the common table".into()); }
            out.push_str(&table("fnPg", "Postgres `prepare_function_name`", "PgFunction", &FN_PG, &arms_of_block(&o.block), &no_hook)?);
        } else if over.is_some() { return Err(format!("{ty} overrides prepare_function_name (the model has no such table)")); }
    }
    // ---- keyword tables of the shared renderer: join types, lock strengths and behaviours, sub-query operators, keywords
    let body = |name: &str| -> R<&syn::Block> { trait_fn(&qb, "QueryBuilder", name).and_then(|f| f.default.as_ref()).ok_or(format!("QueryBuilder::{name} not found")) };
    let jt = body("prepare_join_type")?;
    if !norm_tokens(jt).contains("self . prepare_join_type_common (join_type , sql)") { return Err("QueryBuilder::prepare_join_type no longer delegates to prepare_join_type_common".into()); }
    out.push_str(&table("joinKw", "`prepare_join_type_common`", "JoinType", &JOIN, &arms_of_block(body("prepare_join_type_common")?), &no_hook)?);
    let lock = body("prepare_select_lock")?;
    if !norm_tokens(lock).contains("\"FOR {}\"") || !norm_tokens(lock).contains("\" OF \"") { return Err("QueryBuilder::prepare_select_lock: the `FOR {}` / ` OF ` frame is not the modelled one".into()); }
    let larms = arms_of_block(lock);
    out.push_str(&table("lockKw", "`prepare_select_lock`: the lock strength written after `FOR `", "LockType", &LOCK, &larms, &no_hook)?);
    out.push_str(&table("lockBehaviorKw", "`prepare_select_lock`: the behaviour suffix", "LockBehavior", &LOCK_BEHAVIOR, &larms, &no_hook)?);
    out.push_str(&table("subOpKw", "`prepare_sub_query_oper`", "SubQueryOper", &SUBQ, &arms_of_block(body("prepare_sub_query_oper")?), &no_hook)?);
    out.push_str(&table("keywordKw", "`prepare_keyword`", "Keyword", &KEYWORD, &arms_of_block(body("prepare_keyword")?), &no_hook)?);
    for (b, ty, f) in &files {
        // the overrides the model knows: MySQL refuses FULL OUTER JOIN, SQLite writes no lock clause and refuses ANY / SOME / ALL
        let has = |name: &str| impl_fn(f, Some("QueryBuilder"), ty, name).is_some();
        let want: &[&str] = match *b { "Mysql" => &["prepare_join_type"], "Sqlite" => &["prepare_select_lock", "prepare_sub_query_oper"], _ => &[] };
        for name in ["prepare_join_type", "prepare_join_type_common", "prepare_select_lock", "prepare_sub_query_oper", "prepare_keyword"] {
            if has(name) != want.contains(&name) { return Err(format!("{ty}: override of {name} {} (the model expects the opposite)", if has(name) { "present" } else { "missing" })); }
        }
    }
    out.push_str("end SeaQ.Gen.Spell\n");
    Ok(vec![("Spell.lean".into(), out)])
}
